"""World X — cross-process differential (C17).

The *same* plans (from worlds D, L and peer-less S, with the query battery as
query set) are executed in K fresh interpreter processes with different real
``PYTHONHASHSEED`` values — object addresses differ between them as ASLR
provides, and one execution runs with ASLR off when ``setarch -R`` is
permitted.  Oracle: event-by-event transcripts are byte-identical.
"""

import json
import os
import subprocess
import sys
import time

from . import core
from . import driver

STREAMS = [('D', {}, 5), ('L', {'focus': 'C09'}, 2), ('L', {'focus': 'C10'}, 2), ('L', {'focus': 'C02'}, 1),
           ('S', {'focus': 'C11'}, 2), ('S', {'focus': 'C12'}, 2)]


def corpus(seed, n, tier):
    """The n plans of this batch (generated in-process: cheap, deterministic)."""
    plans = []
    total = sum(w for _, _, w in STREAMS)
    i = 0
    while len(plans) < n:
        for world, gen, w in STREAMS:
            for _ in range(w):
                if len(plans) >= n:
                    break
                mod = driver.world_module(world)
                rng = core.rng_for(seed, 'X' + world + gen.get('focus', ''), i)
                plan = mod.generate(rng, seed, i, tier, xmode=True, **gen)
                plan['keep_lines'] = False
                plan['xid'] = len(plans)
                plans.append(plan)
                i += 1
    del total
    return plans


def exec_plans_stdin():
    """(internal) execute the plans given on stdin under this interpreter's hash seed."""
    core.use_repo()
    payload = json.loads(sys.stdin.read())
    out = []
    for plan in payload['plans']:
        plan = dict(plan, keep_lines=payload.get('lines', False))
        try:
            res = core.isolated_call(driver.run_plan, {'plan': plan, 'props': payload.get('props', []), 'known': []},
                                     timeout=300)
            item = {'digest': res['digest'], 'n_events': res['n_events'], 'sched': res['sched']}
            if payload.get('lines'):
                item['lines'] = res.get('lines', [])
        except core.HarnessError as e:
            item = {'harness_error': str(e)[:1500]}
        out.append(item)
    print('RESULT ' + json.dumps(out))
    return 0


def spawn(plans, hashseed, lines=False, setarch=False):
    env = dict(os.environ)
    env['PYTHONHASHSEED'] = str(hashseed)
    env['PYTHONDONTWRITEBYTECODE'] = '1'
    env[core.GUARD] = '1'
    cmd = [core.PYTHON, os.path.join(core.VERIF_DIR, 'checks', 'run.py'), '--exec-plans', '-']
    if setarch:
        cmd = ['setarch', 'x86_64', '-R'] + cmd
    p = subprocess.Popen(cmd, stdin=subprocess.PIPE, stdout=subprocess.PIPE, stderr=subprocess.PIPE,
                         env=env, cwd=core.VERIF_DIR)
    p.stdin.write(json.dumps({'plans': plans, 'lines': lines, 'props': ['C17']}).encode())
    p.stdin.close()
    return p


def collect(p, timeout=1800):
    try:
        out = p.stdout.read()
        err = p.stderr.read()
        p.wait(timeout=timeout)
    except subprocess.TimeoutExpired:
        p.kill()
        raise core.HarnessError('cross-process execution timed out')
    if p.returncode != 0:
        raise core.HarnessError(f'cross-process execution failed: {err.decode()[-1500:]}')
    line = [l for l in out.decode().splitlines() if l.startswith('RESULT ')]
    if not line:
        raise core.HarnessError('no RESULT from cross-process execution')
    res = json.loads(line[-1][7:])
    for r in res:
        if 'harness_error' in r:
            raise core.HarnessError(r['harness_error'])
    return res


def run_under(plans, hashseed, lines=False, setarch=False, parallel=4):
    """Execute all plans under one hash seed, split over ``parallel`` interpreters."""
    chunks = [plans[i::parallel] for i in range(parallel)]
    procs = [(c, spawn(c, hashseed, lines, setarch)) for c in chunks if c]
    res = {}
    for c, p in procs:
        for plan, r in zip(c, collect(p)):
            res[plan['xid']] = r
    return [res[p['xid']] for p in plans]


def differs(plan, seeds, setarch_flags=(False, False)):
    a = run_under([plan], seeds[0], lines=True, parallel=1, setarch=setarch_flags[0])[0]
    b = run_under([plan], seeds[1], lines=True, parallel=1, setarch=setarch_flags[1])[0]
    if a['digest'] == b['digest']:
        return None
    la, lb = a['lines'], b['lines']
    for k, (x, y) in enumerate(zip(la, lb)):
        if x != y:
            return {'line': k, 'a': x[:600], 'b': y[:600]}
    return {'line': min(len(la), len(lb)), 'a': f'<{len(la)} lines>', 'b': f'<{len(lb)} lines>'}


def minimise(plan, seeds, flags, budget_s=240):
    t0 = time.monotonic()
    events = list(plan['events'])
    d = differs(plan, seeds, flags)
    if d is None:
        return plan, None
    try:
        cut = int(d['a'].split(' ', 1)[0]) + 1
        if differs(dict(plan, events=events[:cut]), seeds, flags):
            events = events[:cut]
    except ValueError:
        pass
    n = 2
    while len(events) >= 2 and time.monotonic() - t0 < budget_s:
        size = max(1, len(events) // n)
        reduced = False
        for start in range(0, len(events), size):
            cand = events[:start] + events[start + size:]
            if cand and differs(dict(plan, events=cand), seeds, flags):
                events, reduced = cand, True
                n = max(n - 1, 2)
                break
            if time.monotonic() - t0 > budget_s:
                break
        if not reduced:
            if size == 1:
                break
            n = min(len(events), n * 2)
    small = dict(plan, events=events)
    return small, differs(small, seeds, flags)


def replay(rp, path):
    d = differs(rp['plan'], rp['seeds'], tuple(rp.get('setarch', (False, False))))
    if d is not None:
        print(f'reproduced: transcripts under PYTHONHASHSEED={rp["seeds"][0]} and {rp["seeds"][1]} differ at line '
              f'{d["line"]}:\n  {d["a"]}\n  {d["b"]}')
        print(f'VIOLATION property=C17 replay={path}')
        return 1
    print('not reproduced (transcripts identical)')
    return 0


def explore(prop, tier, seed, spec):
    from . import seams
    rep = driver.Report(prop, tier, seed)
    n = int(os.environ.get('VERIF_RUNS') or spec['runs'][tier])
    k = spec['k'][tier]
    plans = corpus(seed, n, tier)
    rng = core.rng_for(seed, 'Xseeds', 0)
    seeds = [0, 1, 2] + [rng.randrange(3, 2 ** 32 - 1) for _ in range(max(0, k - 3))]
    seeds = seeds[:k]
    par = max(1, 16 // (k + 2))
    has_setarch = seams.setarch_available()
    # all executions run concurrently: K seeds + a repeat of the first (determinism precondition) + ASLR off
    jobs = [(hs, False) for hs in seeds] + [(seeds[0], False)] + ([(seeds[1], True)] if has_setarch else [])
    procs = []
    for hs, sa in jobs:
        chunks = [plans[i::par] for i in range(par)]
        procs.append([(c, spawn(c, hs, False, sa)) for c in chunks if c])
    table = []
    for pr in procs:
        res = {}
        for c, p in pr:
            for plan, r in zip(c, collect(p)):
                res[plan['xid']] = r
        table.append([res[p['xid']] for p in plans])
    base = table[0]
    repeat = table[len(seeds)]
    for p, a, b in zip(plans, base, repeat):
        if a['digest'] != b['digest']:
            raise core.HarnessError(f'determinism precondition failed: plan {p["xid"]} ({p["world"]}) gives two '
                                    f'different transcripts under the same PYTHONHASHSEED={seeds[0]}')
    exit_code, n_viol = 0, 0
    reported = 0
    distinct = set()
    for i, p in enumerate(plans):
        digs = [t[i]['digest'] for t in table]
        rep.runs += 1
        rep.events += base[i]['n_events'] * len(table)
        rep.evals += len(table) - 1
        if base[i]['n_events'] >= 3:
            distinct.add(base[i]['digest'])
        if len(rep.samples) < 2:
            rep.samples.append({'world': p['world'], 'config': p['config'], 'events': p['events'][:15],
                                'events_total': len(p['events']), 'executed_under_hashseeds': seeds,
                                'transcript_digest': base[i]['digest']})
        if len(set(digs)) == 1 or reported >= 3:
            continue
        j = next(j for j in range(1, len(table)) if digs[j] != digs[0])
        pair = [jobs[0][0], jobs[j][0]]
        flags = (jobs[0][1], jobs[j][1])
        small, d = minimise(p, pair, flags)
        if d is None:
            raise core.HarnessError(f'transcript difference of plan {p["xid"]} did not reproduce')
        reported += 1
        n_viol += 1
        path = os.path.join(driver.replays_dir(), f'C17-{seed}-{p["xid"]}.json')
        with open(path, 'w', encoding='utf-8') as f:
            json.dump({'kind': 'xproc', 'property': 'C17', 'oracle': 'C17.transcripts_equal', 'verif_seed': seed,
                       'run': p['xid'], 'seeds': pair, 'setarch': list(flags), 'plan': small,
                       'original_events': len(p['events']), 'minimised_events': len(small['events']),
                       'first_difference': d}, f, indent=1)
            f.write('\n')
        print(f'violation: C17.transcripts_equal plan={p["xid"]} world={p["world"]} seeds={pair}: line {d["line"]}\n'
              f'  {d["a"][:300]}\n  {d["b"][:300]}')
        print(f'VIOLATION property=C17 replay={path}')
        exit_code = 1
    rep.scheds = distinct
    rep.nontrivial_runs = len(distinct)
    rep.faults = {'hashseed_switch': len(plans) * (len(seeds) - 1),
                  'aslr_off_execution': len(plans) if has_setarch else 0,
                  'same_seed_repeat(determinism precondition)': len(plans)}
    rep.extra = {'plans': len(plans), 'executions': len(plans) * len(table), 'hashseeds': seeds,
                 'setarch_available': has_setarch,
                 'interpreter_processes': sum(len(pr) for pr in procs),
                 'oracle_evaluations_rule': 'transcript comparisons against the baseline execution',
                 'rule': ('one evaluation = one plan (a seeded history from world D, L or peer-less S with the query '
                          'battery as query set) executed in fresh interpreters under every listed PYTHONHASHSEED, '
                          'once more under the first seed (determinism precondition) and once with ASLR off when '
                          'setarch -R is permitted; all transcripts must be byte-identical; a plan is non-trivial '
                          'when it has >= 3 events; distinct = distinct baseline transcript digests among them')}
    rep.drop = ('distinct_abstract_states', 'distinct_abstract_states_rule', 'nontrivial_runs', 'runs')
    driver.write_evidence(rep, spec, n_viol)
    print(f'{prop} {tier} seed={seed}: plans={len(plans)} executions={len(plans) * len(table)} hashseeds={seeds} '
          f'setarch={has_setarch} distinct_transcripts={len(distinct)} wall={time.time() - rep.t0:.1f}s exit={exit_code}')
    return exit_code
