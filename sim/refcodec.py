"""Independent reference readers / writers for the text formats (C12).

Written from the format descriptions (docs/manual.rst, the examples/ files and
the published Burmeister / FIMI conventions), sharing no code with
``concepts.formats``.  A triple is ``(objects, properties, bools)`` with lists
of str and a list of tuples of bool.
"""

import csv
import io


class RefError(Exception):
    pass


# ----------------------------------------------------------------- table

def read_table(text):
    """ASCII-art table: header ``|p1|p2|`` (first field blank), then one line
    per object ``name|cell|cell|``; a cell is true iff it is not blank.
    ``#`` starts a comment, blank lines are ignored."""
    lines = []
    for raw in text.split('\n'):
        raw = raw.split('#', 1)[0]
        if raw.strip():
            lines.append(raw.rstrip('\r'))
    if not lines:
        raise RefError('empty table')

    def fields(line):
        parts = line.split('|')
        if parts[-1].strip():
            raise RefError(f'line does not end with |: {line!r}')
        return parts[0].strip(), [p.strip() for p in parts[1:-1]]

    head, props = fields(lines[0])
    if head:
        raise RefError('header has a name in the object column')
    objs, bools = [], []
    for line in lines[1:]:
        name, cells = fields(line)
        if len(cells) != len(props):
            raise RefError(f'{len(cells)} cells for {len(props)} properties: {line!r}')
        objs.append(name)
        bools.append(tuple(bool(c) for c in cells))
    return objs, props, bools


def write_table(objs, props, bools, style='left', indent=0, mark='X'):
    """The documented layout; ``style`` varies only the (insignificant) padding."""
    w0 = max([len(o) for o in objs] + [0])
    widths = [len(p) for p in props]
    if style == 'wide':
        w0 += 2
        widths = [w + 2 for w in widths]

    def pad(s, w):
        if style == 'center':
            return s.center(w)
        if style == 'right':
            return s.rjust(w)
        return s.ljust(w)

    out = [' ' * indent + ' ' * w0 + '|' + '|'.join(pad(p, w) for p, w in zip(props, widths)) + '|']
    for o, row in zip(objs, bools):
        out.append(' ' * indent + o.ljust(w0) + '|'
                   + '|'.join(pad(mark if b else '', w) for b, w in zip(row, widths)) + '|')
    return '\n'.join(out) + ('\n' if style != 'left' else '')


# ----------------------------------------------------------------- cxt

def read_cxt(text):
    """Burmeister: ``B``, name line, #objects, #properties, blank, object
    names, property names, one ``X``/``.`` row per object."""
    lines = [l.rstrip('\r') for l in text.split('\n')]
    while lines and not lines[-1].strip():
        lines.pop()
    if not lines or lines[0].strip() != 'B':
        raise RefError('missing B')
    k = 2  # line 1 is the (here: empty) context name
    while not lines[k].strip():
        k += 1
    n = int(lines[k])
    m = int(lines[k + 1])
    k += 2
    while not lines[k].strip():
        k += 1
    objs = [l.strip() for l in lines[k:k + n]]
    props = [l.strip() for l in lines[k + n:k + n + m]]
    rows = lines[k + n + m:]
    if len(objs) != n or len(props) != m or len(rows) != n:
        raise RefError(f'counts do not match: {n} {m} {len(rows)}')
    bools = []
    for r in rows:
        r = r.strip()
        if len(r) != m or set(r) - set('X.'):
            raise RefError(f'bad row {r!r}')
        bools.append(tuple(ch == 'X' for ch in r))
    return objs, props, bools


def write_cxt(objs, props, bools, trailing_newline=True):
    out = ['B', '', str(len(objs)), str(len(props)), '']
    out += list(objs) + list(props)
    out += [''.join('X' if b else '.' for b in row) for row in bools]
    return '\n'.join(out) + ('\n' if trailing_newline else '')


# ----------------------------------------------------------------- csv

def read_csv(text, delimiter=','):
    """First row: object-column header then the properties; then one row per
    object with ``X``/blank or ``1``/``0`` cells.  ``csv`` is used as a
    tokenizer only."""
    rows = list(csv.reader(io.StringIO(text, newline=''), delimiter=delimiter,
                           quotechar='"', doublequote=True, skipinitialspace=False,
                           strict=True))
    if not rows:
        raise RefError('empty csv')
    props = rows[0][1:]
    objs, bools = [], []
    values = {'X': True, '': False, '1': True, '0': False}
    for r in rows[1:]:
        if len(r) != len(props) + 1:
            raise RefError(f'row length {len(r)} for {len(props)} properties')
        objs.append(r[0])
        try:
            bools.append(tuple(values[c] for c in r[1:]))
        except KeyError:
            raise RefError(f'bad cell in {r!r}')
    return objs, props, bools


def write_csv(objs, props, bools, delimiter=',', as_int=False, quote_all=False,
              header='', terminator='\r\n'):
    def field(s):
        s = str(s)
        if quote_all or any(ch in s for ch in (delimiter, '"', '\r', '\n')):
            return '"' + s.replace('"', '""') + '"'
        return s

    sym = {True: '1', False: '0'} if as_int else {True: 'X', False: ''}
    lines = [delimiter.join(field(x) for x in [header] + list(props))]
    for o, row in zip(objs, bools):
        lines.append(delimiter.join([field(o)] + [field(sym[bool(b)]) for b in row]))
    return terminator.join(lines) + terminator


# ----------------------------------------------------------------- wiki-table

def read_wiki(text):
    lines = text.split('\n')
    while lines and not lines[-1].strip():
        lines.pop()
    if not lines[0].startswith('{|') or lines[-1].strip() != '|}':
        raise RefError('not a wiki table')
    if lines[1] != '!':
        raise RefError('missing empty corner header')
    if not lines[2].startswith('!'):
        raise RefError('missing property header')
    props = lines[2][1:].split('!!')
    objs, bools = [], []
    k = 3
    while k < len(lines) - 1:
        if lines[k] != '|-' or not lines[k + 1].startswith('!') or not lines[k + 2].startswith('|'):
            raise RefError(f'bad row at line {k}')
        objs.append(lines[k + 1][1:])
        cells = lines[k + 2][1:].split('||')
        if len(cells) != len(props):
            raise RefError('cell count')
        bools.append(tuple(bool(c.strip()) for c in cells))
        k += 3
    return objs, props, bools


# ----------------------------------------------------------------- fimi / dat

def read_index_rows(text):
    """One line per row/concept: the zero-based indexes, blank separated."""
    if text.endswith('\n'):
        text = text[:-1]
    if text == '' :
        return [()]
    return [tuple(int(t) for t in line.split(' ') if t != '') for line in text.split('\n')]


def fimi_rows(bools):
    return [tuple(j for j, b in enumerate(row) if b) for row in bools]


READERS = {'table': read_table, 'cxt': read_cxt, 'csv': read_csv, 'wiki-table': read_wiki}
