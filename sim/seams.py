"""Seams through which the simulator owns nondeterminism.

* ``SimSet`` — shadows the builtin name ``set`` in the library's module
  globals, so that "whatever order a set happens to have" becomes a
  plan-controlled, replayable choice independent of hash seed and addresses.
* ``SimUnpickler`` — maps the bitset class ids (memory addresses of the writing
  process) found in a pickle through a plan-chosen function: identity,
  *fresh* (what a foreign process's pickle looks like) or *collide* (the foreign
  addresses happen to equal those of a live context with equal labels).
* ``setarch_available`` — probe for ``setarch -R`` (ASLR off for real peers).
"""

import io
import pickle
import random
import subprocess

_LIB_MODULES = ('concepts.tools', 'concepts.definitions', 'concepts.lattices',
                'concepts.contexts', 'concepts.lattice_members', 'concepts.junctors',
                'concepts.matrices', 'concepts.algorithms.common',
                'concepts.algorithms.lindig', 'concepts.algorithms.fcbo',
                'concepts._common', 'concepts.visualize')


def canon_key(x):
    """Address-free total order key for anything the library puts in a set."""
    if isinstance(x, str):
        return (0, x)
    if isinstance(x, bool):
        return (1, int(x))
    if isinstance(x, int):
        return (1, int(x))
    if isinstance(x, tuple):
        return (2, tuple(canon_key(i) for i in x))
    ext = getattr(x, '_extent', None)
    if ext is not None:  # a lattice concept: by extent bits
        return (3, int(ext))
    return (4, repr(type(x)))


class SimSet(set):
    """``set`` whose iteration order is decided by the plan."""

    order_seed = 0   # 0: canonical sorted order; k>0: seeded permutation of it
    iterations = 0   # how often an order was actually consumed (probe)
    permuted = 0     # ... with a plan-chosen permutation in force (the fault count)

    def __iter__(self):
        items = sorted(set.__iter__(self), key=canon_key)
        if len(items) > 1:
            SimSet.iterations += 1
            if SimSet.order_seed:
                SimSet.permuted += 1
                random.Random(f'{SimSet.order_seed}:{len(items)}').shuffle(items)
        return iter(items)

    def copy(self):
        return SimSet(set.__iter__(self))

    def __repr__(self):
        return '{' + ', '.join(repr(i) for i in self) + '}' if self else 'set()'

    def __reduce__(self):
        return (set, (list(self),))


def install_simset():
    import importlib
    for name in _LIB_MODULES:
        try:
            mod = importlib.import_module(name)
        except ImportError:
            continue
        mod.set = SimSet


def uninstall_simset():
    import importlib
    for name in _LIB_MODULES:
        try:
            mod = importlib.import_module(name)
        except ImportError:
            continue
        if mod.__dict__.get('set') is SimSet:
            del mod.set


class _RelationProxy:
    """Stands in for ``concepts.matrices.Relation`` while unpickling."""

    def __init__(self, real, idmap, seen):
        self.real, self.idmap, self.seen = real, idmap, seen

    def __call__(self, xname, yname, xmembers, ymembers, xbools, _ids=None):
        if _ids is not None:
            self.seen.append(tuple(_ids))
            _ids = tuple(self.idmap(tuple(_ids)))
        return self.real(xname, yname, xmembers, ymembers, xbools, _ids)


class SimUnpickler(pickle.Unpickler):

    def __init__(self, file, idmap):
        super().__init__(file)
        self.idmap = idmap
        self.seen_ids = []

    def find_class(self, module, name):
        obj = super().find_class(module, name)
        if module == 'concepts.matrices' and name == 'Relation':
            return _RelationProxy(obj, self.idmap, self.seen_ids)
        return obj


def sim_loads(data, idmap):
    up = SimUnpickler(io.BytesIO(data), idmap)
    return up.load(), up.seen_ids


_fresh_counter = [0]


def fresh_ids(_ids):
    """Ids no live class can have (addresses are far below 2**60)."""
    _fresh_counter[0] += 2
    base = (1 << 60) + _fresh_counter[0]
    return (base, base + 1)


def setarch_available():
    try:
        return subprocess.run(['setarch', 'x86_64', '-R', 'true'],
                              capture_output=True, timeout=10).returncode == 0
    except (OSError, subprocess.SubprocessError):
        return False
