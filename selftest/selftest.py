#!/venv/bin/python
"""Self-tests of the machinery (run by MANIFEST.setup_cmd and on demand).

1. models: FCA model vs two differently written brute forces; ordered-table
   model vs hand-written expectations from the docstrings; reference codecs vs
   the repository's examples/ files and vs each other.
2. determinism: the same plans executed twice in forked children, in fresh
   interpreters under other PYTHONHASHSEED values (the harness must be
   hash-stable; with the set-order seam installed even the library's set
   orders are), and with 1 vs several workers -> identical transcript digests.

Exit 0 = all good, 2 = the machinery is broken (never 1: this is no property check).
"""

import json
import os
import random
import subprocess
import sys

HERE = os.path.dirname(os.path.dirname(os.path.abspath(__file__)))
sys.path.insert(0, HERE)

from sim import core  # noqa: E402


def fail(msg):
    print('SELFTEST-FAILED', msg)
    sys.exit(2)


def test_fca_model():
    from sim.refmodel_fca import FCA, all_concepts_bruteforce
    rng = random.Random(12345)
    for it in range(300):
        n, m = rng.randint(1, 6), rng.randint(1, 6)
        dens = rng.choice([.2, .5, .8])
        rows = [sum((rng.random() < dens) << j for j in range(m)) for _ in range(n)]
        f = FCA(n, m, rows)
        if f.concepts() != all_concepts_bruteforce(f):
            fail(f'FCA model concepts differ from brute force on {rows}')
        up = [f.upper_covers(k) for k in range(len(f.concepts()))]
        if up != f.covers_by_definition():
            fail(f'FCA model covers differ from the definition on {rows}')
        for k, (e, i) in enumerate(f.concepts()):
            if f.intent(e) != i or f.extent(i) != e:
                fail('not a concept')
            if sorted(f.upset(k)) != sorted(j for j, (g, _) in enumerate(f.concepts()) if g & e == e):
                fail('upset')
    # hand-checked example: the 2x2 "man/woman" context
    f = FCA(2, 2, [0b01, 0b10])
    if f.concepts() != [(0, 3), (1, 1), (2, 2), (3, 0)]:
        fail(f'2x2 example: {f.concepts()}')
    d = f.documented_dict(['man', 'woman'], ['male', 'female'])
    want = {'objects': ('man', 'woman'), 'properties': ('male', 'female'), 'context': [(0,), (1,)],
            'lattice': [((), (0, 1), (1, 2), ()), ((0,), (0,), (3,), (0,)), ((1,), (1,), (3,), (0,)),
                        ((0, 1), (), (), (1, 2))]}
    if d != want:
        fail(f'documented dict of the 2x2 example: {d}')


def test_table_model():
    from sim.refmodel_table import Table, Rejected
    t = Table.fromtriple(['Mr. Praline', 'parrot'], ['alive', 'dead'], [(True, False), (False, True)])
    t.setitem('Mr. Praline', 'dead', True)
    t.rename_object('Mr. Praline', 'Mr. Cleese')
    if t.triple() != (('Mr. Cleese', 'parrot'), ('alive', 'dead'), [(True, True), (False, True)]):
        fail(f'table model rename: {t.triple()}')
    t.add_object('a', ['x', 'dead'])
    if t.props != ['alive', 'dead', 'x'] or ('a', 'x') not in t.cells:
        fail('table model add_object')
    t.set_object('a', ['alive'])
    if [c for c in sorted(t.cells) if c[0] == 'a'] != [('a', 'alive')]:
        fail('table model set_object')
    if t.remove_empty_properties() != ['x']:
        fail('table model remove_empty_properties')
    try:
        t.remove_object('nobody')
        fail('table model accepted unknown name')
    except Rejected:
        pass
    u = Table.fromtriple(['a', 'b'], ['p'], [(True,), (False,)])
    v = Table.fromtriple(['b', 'c'], ['p', 'q'], [(True, False), (True, True)])
    if u.conflicts(v) != [('b', 'p')]:
        fail('table model conflicts')
    w = u.union(v, True)
    if w.triple() != (('a', 'b', 'c'), ('p', 'q'), [(True, False), (True, False), (True, True)]):
        fail(f'table model union {w.triple()}')
    if u.take(['b', 'a'], None, True).objs != ['b', 'a'] or u.take(['b', 'a'], None, False).objs != ['a', 'b']:
        fail('table model take')
    if u.transposed().transposed().key() != u.key() or u.inverted().inverted().key() != u.key():
        fail('table model involutions')


def test_codecs():
    from sim import refcodec
    core.use_repo()
    import concepts
    ex = os.path.join(core.REPO, 'examples')
    for name, frmat, reader in (('liveinwater.cxt', 'cxt', refcodec.read_cxt),
                                ('liveinwater.csv', 'csv', refcodec.read_csv),
                                ('liveinwater.txt', 'table', refcodec.read_table),
                                ('digits.cxt', 'cxt', refcodec.read_cxt),
                                ('vowels.csv', 'csv', refcodec.read_csv)):
        path = os.path.join(ex, name)
        if not os.path.exists(path):
            continue
        with open(path, encoding='utf-8', newline='') as f:
            o, p, b = reader(f.read())
        c = concepts.Context.fromfile(path, frmat=frmat, encoding='utf-8')
        if (tuple(o), tuple(p), [tuple(r) for r in b]) != (c.objects, c.properties, c.bools):
            fail(f'reference reader disagrees with the library on examples/{name}')
    objs, props, bools = ['a b', 'c'], ['x', 'y.z', 'w'], [(True, False, False), (False, False, True)]
    for style in ('left', 'center', 'right', 'wide'):
        if refcodec.read_table(refcodec.write_table(objs, props, bools, style=style)) != (objs, props, bools):
            fail(f'reference table codec does not round-trip ({style})')
    if refcodec.read_cxt(refcodec.write_cxt(objs, props, bools)) != (objs, props, bools):
        fail('reference cxt codec does not round-trip')
    for kw in ({}, {'as_int': True}, {'quote_all': True}, {'delimiter': '\t'}):
        text = refcodec.write_csv(['a,"b"', 'c\nd'], props, bools, **kw)
        if refcodec.read_csv(text, delimiter=kw.get('delimiter', ',')) != (['a,"b"', 'c\nd'], props, bools):
            fail(f'reference csv codec does not round-trip {kw}')
    if refcodec.read_index_rows('0 2\n\n1\n') != [(0, 2), (), (1,)]:
        fail('reference index-row reader')


def _plans(n):
    from sim import driver
    plans = []
    for world, gens in (('D', [{}]), ('L', [{'focus': 'C01'}, {'focus': 'C09'}, {'focus': 'C05'}]),
                        ('S', [{'focus': 'C11'}, {'focus': 'C12'}])):
        mod = driver.world_module(world)
        for g in gens:
            for i in range(n):
                plan = mod.generate(core.rng_for(4242, 'selftest' + world + g.get('focus', ''), i), 4242, i, 'quick', **g)
                plans.append(plan)
    return plans


PROPS = {'D': ['C13', 'C14'], 'L': ['C01', 'C02', 'C05', 'C09', 'C10'], 'S': ['C11', 'C12']}


def digest_of(arg):
    from sim import driver
    res = driver.run_plan(arg)
    return {'digest': res['digest'], 'viol': res['viol'], 'sched': res['sched'], 'evals': res['evals']}


def test_determinism(n):
    from sim import driver
    plans = _plans(n)
    args = [{'plan': p, 'props': PROPS[p['world']], 'known': driver.load_known()} for p in plans]
    a = core.parallel_map('selftest.selftest', 'digest_of', args, workers=8, timeout=300)
    b = core.parallel_map('selftest.selftest', 'digest_of', args, workers=3, timeout=300)
    for p, x, y in zip(plans, a, b):
        if x != y:
            fail(f'same plan, two executions, different results: world {p["world"]} run {p["run"]}: {x} vs {y}')
    bad = [(p['world'], p['run'], x['viol']) for p, x in zip(plans, a) if x['viol']]
    if bad:
        print('note: selftest plans with violations on this tree:', bad[:3])
    # fresh interpreters under other harness hash seeds; plans with the set-order seam or without any
    # hash-order dependence must give the very same transcript
    sample = [(p, x) for p, x in zip(plans, a)][::max(1, len(plans) // 12)]
    for hs in (1, 987654321):
        for p, x in sample:
            r = driver.run_fresh(p, PROPS[p['world']], driver.load_known(), hashseed=hs)
            if r['digest'] != x['digest']:
                fail(f'transcript of world {p["world"]} run {p["run"]} depends on the harness PYTHONHASHSEED ({hs})')
    if n >= 20:
        # large sample: every plan again in fresh interpreters under two other hash seeds, with ASLR on and
        # (when permitted) off; oracles off, transcripts only
        from sim import world_xproc, seams
        for k, p in enumerate(plans):
            p['xid'] = k
        base = world_xproc.run_under(plans, 0, parallel=5)
        jobs = [(3, False), (4242424242, False)] + ([(0, True)] if seams.setarch_available() else [])
        for hs, sa in jobs:
            other = world_xproc.run_under(plans, hs, parallel=5, setarch=sa)
            for p, x, y in zip(plans, base, other):
                if x['digest'] != y['digest']:
                    fail(f'world {p["world"]} run {p["run"]} (simset={p["config"].get("simset")}): transcript differs '
                         f'between PYTHONHASHSEED 0 and {hs} (setarch={sa})')
    return len(plans)


def main():
    quick = '--quick' in sys.argv
    core.ensure_env()
    test_fca_model()
    test_table_model()
    test_codecs()
    n = test_determinism(6 if quick else 40)
    print(f'selftest ok: models, codecs, determinism: {n} plans x 2 executions (8 and 3 workers), a sample of them '
          f'again in fresh interpreters under 2 other hash seeds' + (', and all of them under 2 other hash seeds '
          f'and with ASLR off' if n >= 100 else ''))
    return 0


if __name__ == '__main__':
    try:
        sys.exit(main())
    except core.HarnessError as e:
        print('SELFTEST-FAILED harness error:', e)
        sys.exit(2)
