#!/bin/bash
# Run every registered quick check against /repo itself and validate MANIFEST + evidence.
cd "$(dirname "$0")/.." || exit 2
unset VERIF_RUNS VERIF_REPO
rc=0
for p in C01 C02 C05 C09 C10 C11 C12 C13 C14 C17; do
  /venv/bin/python checks/run.py $p --tier quick 2>&1 | grep -v WARNING | grep -E "quick seed|VIOLATION|KNOWN-FINDING|HARNESS" | cut -c1-260
  [ "${PIPESTATUS[0]}" -ne 0 ] && rc=1
done
python3-vt - <<'PY'
import json, jsonschema, glob
jsonschema.validate(json.load(open('MANIFEST.json')), json.load(open('/root/.vp/MANIFEST.schema.json')))
for p in sorted(glob.glob('evidence/*.json')):
    e = json.load(open(p))
    jsonschema.validate(e, json.load(open('/root/.vp/EVIDENCE.schema.json')))
    assert e['tier'] == 'quick', p
print('MANIFEST and', len(glob.glob('evidence/*.json')), 'evidence files valid')
PY
exit $rc
