#!/venv/bin/python
"""Verify a sub-agent's breaking change in a scratch copy and keep it under seeded/<id>/."""
import json, os, shutil, subprocess, sys
HERE = os.path.dirname(os.path.dirname(os.path.abspath(__file__)))
PY = '/venv/bin/python'

def sh(cmd, cwd=None, env=None):
    if env is None:
        env = dict(os.environ, PYTHONHASHSEED='0')
    p = subprocess.run(cmd, cwd=cwd, env=env, capture_output=True, timeout=1800)
    return p.returncode, (p.stdout + p.stderr).decode(errors='replace')

def main():
    if sys.argv[1] == '--src':       # ingest_seeded.py --src DIR NAME PROP ID
        src, letter, prop, mid = sys.argv[2], sys.argv[3], sys.argv[4], sys.argv[5]
    else:
        prop, letter = sys.argv[1], sys.argv[2]
        src = f'/tmp/mut-{prop}'
        mid = f'{prop}-{letter}'
    copy = f'/tmp/verif-ingest-{mid}'
    shutil.rmtree(copy, ignore_errors=True)
    sh(['rsync', '-a', '--exclude', '.git', '--exclude', 'htmlcov', '--exclude', 'test-output', '/repo/', copy + '/'])
    try:
        sh(['git', 'init', '-q'], cwd=copy)
        env = dict(os.environ, PYTHONPATH=copy)
        demo = os.path.join(src, f'{letter}_demo.py')
        c0, o0 = sh([PY, demo], cwd=copy, env=env)
        code, out = sh(['git', 'apply', '--whitespace=nowarn', os.path.join(src, f'{letter}.diff')], cwd=copy)
        if code:
            print(mid, 'PATCH DOES NOT APPLY', out[-300:]); return 1
        c1, o1 = sh([PY, '-m', 'pytest', '-q', '-p', 'no:cacheprovider', '--no-cov'], cwd=copy)
        tail = [l for l in o1.splitlines() if 'passed' in l or 'failed' in l][-1:] 
        c2, o2 = sh([PY, demo], cwd=copy, env=env)
        ok = c0 == 0 and c1 == 0 and c2 != 0
        print(mid, 'demo clean:', c0, '| suite with change:', c1, tail, '| demo with change:', c2, '=> KEEP' if ok else '=> REJECT')
        if not ok:
            print(o0[-300:], o2[-300:]); return 1
        dst = os.path.join(HERE, 'seeded', mid)
        os.makedirs(dst, exist_ok=True)
        shutil.copy(os.path.join(src, f'{letter}.diff'), os.path.join(dst, 'patch.diff'))
        shutil.copy(demo, os.path.join(dst, 'demo.py'))
        shutil.copy(os.path.join(src, f'{letter}.md'), os.path.join(dst, 'notes.md'))
        meta = {'id': mid, 'property': prop, 'demo': 'demo.py', 'checks': [prop],
                'source': 'fresh sub-agent given only the property record and a scratch worktree of /repo',
                'needs_to_manifest': open(os.path.join(src, f'{letter}.md')).read()[:1200],
                'confirmed': {'demo_on_clean_tree_exit': c0, 'pinned_suite_with_change': tail[0] if tail else str(c1),
                              'demo_with_change_exit': c2,
                              'how': 'tools/ingest_seeded.py: scratch copy of /repo under /tmp, git apply, pytest, demo with PYTHONPATH=<copy>; copy removed'}}
        json.dump(meta, open(os.path.join(dst, 'meta.json'), 'w'), indent=1)
        return 0
    finally:
        shutil.rmtree(copy, ignore_errors=True)

if __name__ == '__main__':
    sys.exit(main())
