"""Brute-force FCA reference model from ``(n_obj, n_prop, rows)`` only.

``rows[i]`` is an int whose bit ``j`` says object ``i`` has property ``j``.
Object / property sets are ints too (bit ``i`` = member ``i``), but nothing here
uses lowest-set-bit tricks, heaps or the library's classes: derivations are by
definition, the family of intents is the textbook closure of the row intents
under intersection (plus the full property set), order is extent inclusion and
covers are the inclusion-minimal closures of ``E ∪ {o}``.
"""


def bits(mask):
    out, i = [], 0
    while mask:
        if mask & 1:
            out.append(i)
        mask >>= 1
        i += 1
    return out


def mask_of(indexes):
    m = 0
    for i in indexes:
        m |= 1 << i
    return m


class FCA:

    def __init__(self, n_obj, n_prop, rows):
        assert len(rows) == n_obj
        self.n, self.m = n_obj, n_prop
        self.rows = [int(r) for r in rows]
        self.all_objs = (1 << n_obj) - 1
        self.all_props = (1 << n_prop) - 1
        self.cols = [mask_of(i for i in range(n_obj) if self.rows[i] >> j & 1)
                     for j in range(n_prop)]
        self._concepts = None
        self._index = None
        self._upper = None
        self._lower = None

    @classmethod
    def frombools(cls, bools):
        n = len(bools)
        m = len(bools[0]) if n else 0
        return cls(n, m, [mask_of(j for j, b in enumerate(r) if b) for r in bools])

    def bools(self):
        return [tuple(bool(r >> j & 1) for j in range(self.m)) for r in self.rows]

    # derivations, by definition
    def intent(self, objs):
        res = self.all_props
        for i in bits(objs):
            res &= self.rows[i]
        return res

    def extent(self, props):
        res = self.all_objs
        for j in bits(props):
            res &= self.cols[j]
        return res

    def close_objs(self, objs):
        return self.extent(self.intent(objs))

    def close_props(self, props):
        return self.intent(self.extent(props))

    @staticmethod
    def shortlex(ext):
        b = bits(ext)
        return (len(b), b)

    @staticmethod
    def longlex(ext):
        b = bits(ext)
        return (-len(b), b)

    def concepts(self):
        """All (extent, intent) pairs in shortlex order of the extent."""
        if self._concepts is None:
            intents = {self.all_props}
            for r in self.rows:
                intents |= {r & x for x in intents}
            pairs = [(self.extent(i), i) for i in intents]
            pairs.sort(key=lambda p: self.shortlex(p[0]))
            self._concepts = pairs
            self._index = {e: k for k, (e, _) in enumerate(pairs)}
        return self._concepts

    def index_of(self, ext):
        self.concepts()
        return self._index[ext]

    def upper_covers(self, k):
        """Indexes of the upper covers of concept ``k`` (ascending)."""
        if self._upper is None:
            cs = self.concepts()
            up = []
            for e, _ in cs:
                cands = {self.close_objs(e | 1 << o) for o in range(self.n) if not e >> o & 1}
                mins = [c for c in cands if not any(d != c and d & c == d for d in cands)]
                up.append(sorted(self._index[c] for c in mins))
            self._upper = up
            lo = [[] for _ in cs]
            for i, us in enumerate(up):
                for u in us:
                    lo[u].append(i)
            self._lower = lo
        return self._upper[k]

    def lower_covers(self, k):
        self.upper_covers(0)
        return self._lower[k]

    def covers_by_definition(self):
        """Second, slower formulation: d covers c iff c<d and nothing strictly between."""
        cs = self.concepts()
        res = []
        for i, (e, _) in enumerate(cs):
            above = [j for j, (f, _) in enumerate(cs) if f != e and e & f == e]
            res.append(sorted(j for j in above
                              if not any(cs[k][0] != cs[j][0] and cs[k][0] & cs[j][0] == cs[k][0]
                                         for k in above if k != j)))
        return res

    def upset(self, k):
        e = self.concepts()[k][0]
        return [j for j, (f, _) in enumerate(self.concepts()) if e & f == e]

    def downset(self, k):
        e = self.concepts()[k][0]
        return [j for j, (f, _) in enumerate(self.concepts()) if f & e == f]

    def dindex(self):
        """dindex[k] = position of concept k in longlex order."""
        cs = self.concepts()
        order = sorted(range(len(cs)), key=lambda k: self.longlex(cs[k][0]))
        d = [0] * len(cs)
        for pos, k in enumerate(order):
            d[k] = pos
        return d

    def object_concept(self, o):
        return self.index_of(self.close_objs(1 << o))

    def attribute_concept(self, p):
        return self.index_of(self.extent(1 << p))

    def atoms(self):
        return self.upper_covers(0)

    def documented_dict(self, objects, properties, with_lattice=True):
        """The documented index-based encoding (docs: custom serialization)."""
        d = {'objects': tuple(objects), 'properties': tuple(properties),
             'context': [tuple(bits(r)) for r in self.rows]}
        if with_lattice:
            cs = self.concepts()
            dind = self.dindex()
            lat = []
            for k, (e, i) in enumerate(cs):
                up = tuple(self.upper_covers(k))   # ascending index == shortlex
                lo = tuple(sorted(self.lower_covers(k), key=lambda j: dind[j]))
                lat.append((tuple(bits(e)), tuple(bits(i)), up, lo))
            d['lattice'] = lat
        return d


def all_concepts_bruteforce(fca):
    """Third formulation for the model self-test: every subset of objects."""
    seen = {}
    for a in range(1 << fca.n):
        i = fca.intent(a)
        e = fca.extent(i)
        seen[e] = i
    return sorted(seen.items(), key=lambda p: FCA.shortlex(p[0]))
