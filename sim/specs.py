"""Per-property check specifications (world, budgets, trusted base)."""

REAL = ['concepts (all modules, unmodified, imported from the tree under test)', 'bitsets', 'pickle',
        'json', 'csv', 'ast', 'the filesystem (run-private directory)', 'interpreter processes (peers)']
STUB = ['SimSet (iteration order of sets created through the module-global name `set`)',
        'id-mapping Unpickler (integers naming bitset classes only)', 'the scheduler / plan generator']

SPECS = {
    'C13': {'world': 'D', 'runs': {'quick': 12000, 'thorough': 400000}, 'real': REAL, 'stub': STUB,
            'assumptions': ['ordered-table reference model (sim/refmodel_table.py) is the specification',
                            'move_* with an index outside 0..len-1 and one-shot iterator arguments are unspecified and not generated',
                            'any exception class counts as "raises"']},
    'C14': {'world': 'D', 'runs': {'quick': 12000, 'thorough': 400000}, 'real': REAL, 'stub': STUB,
            'assumptions': ['ordered-table reference model (sim/refmodel_table.py) is the specification',
                            'rejection of Context(*d) for invalid triples is not asserted here (C19 is not claimed)']},
}
