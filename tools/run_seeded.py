#!/venv/bin/python
"""Sensitivity: run the owning checks against every kept breaking change.

For each /verif/seeded/<id>/ (patch.diff + meta.json) a scratch copy of /repo is
made under /tmp, the patch applied there, the pinned suite run (must pass),
the demonstration run (must fail), and the listed checks run with
VERIF_REPO=<copy>.  The copy is removed afterwards.  Prints one line per
(change, check): CAUGHT / MISSED, and writes seeded/RESULTS.json.

    tools/run_seeded.py [id ...] [--tier quick|thorough] [--all-checks] [--skip-suite]
"""
import json
import os
import shutil
import subprocess
import sys
import time

HERE = os.path.dirname(os.path.dirname(os.path.abspath(__file__)))
PY = '/venv/bin/python'
ALL = ['C01', 'C02', 'C05', 'C09', 'C10', 'C11', 'C12', 'C13', 'C14', 'C17']


def sh(cmd, cwd=None, env=None, timeout=3600):
    if env is None:
        env = dict(os.environ, PYTHONHASHSEED='0')
    p = subprocess.run(cmd, cwd=cwd, env=env, capture_output=True, timeout=timeout)
    return p.returncode, (p.stdout + p.stderr).decode(errors='replace')


def main():
    args = [a for a in sys.argv[1:] if not a.startswith('--')]
    tier = 'quick'
    if '--tier' in sys.argv:
        tier = sys.argv[sys.argv.index('--tier') + 1]
        args = [a for a in args if a != tier]
    ids = args or sorted(d for d in os.listdir(os.path.join(HERE, 'seeded'))
                         if os.path.isdir(os.path.join(HERE, 'seeded', d)))
    results = {}
    res_path = os.path.join(HERE, 'seeded', 'RESULTS.json')
    if os.path.exists(res_path):
        results = json.load(open(res_path))
    for mid in ids:
        mdir = os.path.join(HERE, 'seeded', mid)
        meta = json.load(open(os.path.join(mdir, 'meta.json')))
        copy = f'/tmp/verif-seeded-{mid}'
        shutil.rmtree(copy, ignore_errors=True)
        sh(['rsync', '-a', '--exclude', '.git', '--exclude', 'htmlcov', '--exclude', 'test-output', '/repo/', copy + '/'])
        try:
            sh(['git', 'init', '-q'], cwd=copy)
            code, out = sh(['git', 'apply', '--whitespace=nowarn', os.path.join(mdir, 'patch.diff')], cwd=copy)
            if code != 0:
                print(f'{mid}: patch does not apply: {out[-300:]}')
                results[mid] = {'error': 'patch does not apply'}
                continue
            entry = {'property': meta['property'], 'checks': {}}
            if '--skip-suite' not in sys.argv and meta.get('benign'):
                code, out = sh([PY, '-m', 'pytest', '-q', '-p', 'no:cacheprovider', '--no-cov', '-x'], cwd=copy)
                entry['suite'] = 'passes' if code == 0 else 'FAILS'
                print(f'{mid}: suite {entry["suite"]}')
            elif '--skip-suite' not in sys.argv:
                code, out = sh([PY, '-m', 'pytest', '-q', '-p', 'no:cacheprovider', '--no-cov', '-x'], cwd=copy)
                entry['suite'] = 'passes' if code == 0 else 'FAILS'
                demo = os.path.join(mdir, meta.get('demo', 'demo.py'))
                env = dict(os.environ, PYTHONPATH=copy)
                code, out = sh([PY, demo], cwd=copy, env=env)
                entry['demo_with_change'] = 'fails' if code != 0 else 'PASSES'
            checks = ALL if '--all-checks' in sys.argv else meta.get('checks', [meta['property']])
            for chk in checks:
                env = dict(os.environ, VERIF_REPO=copy, VERIF_TIER=tier)
                env.pop('PYTHONPATH', None)
                t0 = time.time()
                code, out = sh([PY, os.path.join(HERE, 'checks', 'run.py'), chk, '--tier', tier], cwd=HERE, env=env,
                               timeout=7200)
                viol = [l for l in out.splitlines() if l.startswith('VIOLATION')]
                first = [l for l in out.splitlines() if l.startswith('violation:')]
                status = 'CAUGHT' if code == 1 and viol else ('MISSED' if code == 0 else f'ERROR({code})')
                if meta.get('obsolete') and status == 'MISSED':
                    status = 'SILENT(obsolete: no longer a defect on the current tree, see meta.json)'
                if meta.get('not_claimed') and status == 'MISSED':
                    status = 'MISSED(outside the claimed statements, see meta.json)'
                if meta.get('benign'):
                    status = 'SILENT(ok)' if code == 0 else (f'FALSE-ALARM' if code == 1 else f'ERROR({code})')
                entry['checks'][chk] = {'status': status, 'tier': tier, 'wall_s': round(time.time() - t0, 1),
                                        'first': first[0][:300] if first else (out[-300:] if code not in (0, 1) else '')}
                print(f'{mid} [{meta["property"]}] check {chk} ({tier}): {status} {entry["checks"][chk]["first"][:160]}')
            results[mid] = entry
        finally:
            shutil.rmtree(copy, ignore_errors=True)
        with open(res_path, 'w') as f:
            json.dump(results, f, indent=1, sort_keys=True)
            f.write('\n')


if __name__ == '__main__':
    main()
