#!/venv/bin/python
"""Sensitivity and negative controls from the pre-study (DESIGN.md §3.8, Appendix B).

Each selftest/mutants/<CHECK>_<name>.patch is applied to a scratch copy of
/repo under /tmp; the pinned suite must still pass; the owning check (prefix of
the file name; NEG_* are semantically equivalent changes on which *all listed*
checks must stay silent) is run with VERIF_REPO=<copy>.  Copies are removed.

    selftest/run_mutants.py [name-substring ...] [--tier quick]
"""
import json
import os
import shutil
import subprocess
import sys
import time

HERE = os.path.dirname(os.path.dirname(os.path.abspath(__file__)))
PY = '/venv/bin/python'
NEG_CHECKS = {'NEG_upset_union_unreduced_seeds': ['C09', 'C17'], 'NEG_mapping_reverse_order': ['C02', 'C10', 'C11'],
              'NEG_csv_sniff_order': ['C12']}
ALSO = {'C13_REV_S1_set_order': ['C13', 'C17'], 'C01_REV_S3_repair_live_classes': ['C01', 'C02', 'C05'],
        'C05_double_cut_at_bit64': ['C05']}


def sh(cmd, cwd=None, env=None, timeout=7200):
    if env is None:
        env = dict(os.environ, PYTHONHASHSEED='0')   # doctests that print sets are hash-seed dependent
    p = subprocess.run(cmd, cwd=cwd, env=env, capture_output=True, timeout=timeout)
    return p.returncode, (p.stdout + p.stderr).decode(errors='replace')


def main():
    want = [a for a in sys.argv[1:] if not a.startswith('--')]
    tier = 'quick'
    mdir = os.path.join(HERE, 'selftest', 'mutants')
    names = sorted(f[:-6] for f in os.listdir(mdir) if f.endswith('.patch'))
    if want:
        names = [n for n in names if any(w in n for w in want)]
    res_path = os.path.join(mdir, 'RESULTS.json')
    results = json.load(open(res_path)) if os.path.exists(res_path) else {}
    bad = 0
    for name in names:
        copy = f'/tmp/verif-mutant-{name}'
        shutil.rmtree(copy, ignore_errors=True)
        sh(['rsync', '-a', '--exclude', '.git', '--exclude', 'htmlcov', '--exclude', 'test-output', '/repo/', copy + '/'])
        try:
            sh(['git', 'init', '-q'], cwd=copy)
            code, out = sh(['git', 'apply', '--whitespace=nowarn', os.path.join(mdir, name + '.patch')], cwd=copy)
            if code:
                print(f'{name}: patch does not apply {out[-200:]}')
                bad += 1
                continue
            code, out = sh([PY, '-m', 'pytest', '-q', '-p', 'no:cacheprovider', '--no-cov', '-x'], cwd=copy)
            suite = 'passes' if code == 0 else 'FAILS'
            neg = name.startswith('NEG_')
            checks = NEG_CHECKS[name] if neg else ALSO.get(name, [name.split('_')[0]])
            entry = {'suite': suite, 'checks': {}}
            for chk in checks:
                env = dict(os.environ, VERIF_REPO=copy)
                env.pop('PYTHONPATH', None)
                t0 = time.time()
                code, out = sh([PY, os.path.join(HERE, 'checks', 'run.py'), chk, '--tier', tier], cwd=HERE, env=env)
                first = [l for l in out.splitlines() if l.startswith('violation:')]
                if neg:
                    status = 'SILENT(ok)' if code == 0 else f'ALARM(code {code})'
                    bad += code != 0
                else:
                    status = 'CAUGHT' if code == 1 else ('MISSED' if code == 0 else f'ERROR({code})')
                    bad += code != 1
                entry['checks'][chk] = {'status': status, 'wall_s': round(time.time() - t0, 1),
                                        'first': first[0][:240] if first else ('' if code in (0, 1) else out[-300:])}
                print(f'{name}: suite {suite}; check {chk}: {status} {entry["checks"][chk]["first"][:150]}')
            results[name] = entry
        finally:
            shutil.rmtree(copy, ignore_errors=True)
        with open(res_path, 'w') as f:
            json.dump(results, f, indent=1, sort_keys=True)
            f.write('\n')
    return 1 if bad else 0


if __name__ == '__main__':
    sys.exit(main())
