#!/venv/bin/python
"""Entry point of every registered check.

    run.py <ID> [--tier quick|thorough] [--seed N]     seeded exploration
    run.py --replay <file>                             re-execute a replay file
    run.py --exec-plan -                               (internal) one plan from stdin

Honours VERIF_SEED, VERIF_TIER, VERIF_REPO (tree under test, default /repo),
VERIF_RUNS (override the number of runs), VERIF_WORKERS, VERIF_EVIDENCE_DIR (write evidence elsewhere).
Exit codes: 0 held, 1 VIOLATION, 2 HARNESS-ERROR (never a pass).
"""

import argparse
import os
import sys
import traceback

sys.path.insert(0, os.path.dirname(os.path.dirname(os.path.abspath(__file__))))

from sim import core  # noqa: E402


def main():
    ap = argparse.ArgumentParser()
    ap.add_argument('prop', nargs='?')
    ap.add_argument('--tier', default=os.environ.get('VERIF_TIER') or 'quick')
    ap.add_argument('--seed', type=int, default=int(os.environ.get('VERIF_SEED') or 20260929))
    ap.add_argument('--replay')
    ap.add_argument('--exec-plan')
    ap.add_argument('--exec-plans')
    ns = ap.parse_args()
    if ns.exec_plan or ns.exec_plans:
        # internal modes keep the PYTHONHASHSEED their parent chose on purpose
        if not os.environ.get('PYTHONHASHSEED'):
            raise core.HarnessError('internal exec mode needs an explicit PYTHONHASHSEED')
        core.use_repo()
        if ns.exec_plan:
            from sim import driver
            return driver.exec_plan_stdin()
        from sim import world_xproc
        return world_xproc.exec_plans_stdin()
    core.ensure_env()
    from sim import driver, specs
    if ns.replay:
        return driver.replay(ns.replay)
    if ns.prop not in specs.SPECS:
        print(f'unknown property {ns.prop!r}; claimed: {sorted(specs.SPECS)}', file=sys.stderr)
        return 2
    if ns.tier not in ('quick', 'thorough'):
        ns.tier = 'quick'
    print(f'VERIF_SEED={ns.seed} tier={ns.tier} repo={core.REPO} hashseed={os.environ.get("PYTHONHASHSEED")}')
    spec = specs.SPECS[ns.prop]
    if spec['world'] == 'X':
        from sim import world_xproc
        return world_xproc.explore(ns.prop, ns.tier, ns.seed, spec)
    return driver.explore(ns.prop, ns.tier, ns.seed, spec)


def _drop_stale_evidence():
    """A run that ends in a HARNESS-ERROR has no evidence: do not leave the previous run's file behind."""
    prop = next((a for a in sys.argv[1:] if a.startswith('C') and a[1:].isdigit()), None)
    if prop and os.path.realpath(core.REPO) == '/repo' and not os.environ.get('VERIF_EVIDENCE_DIR'):
        try:
            os.unlink(os.path.join(core.VERIF_DIR, 'evidence', f'{prop}.json'))
        except OSError:
            pass


if __name__ == '__main__':
    try:
        code = main()
    except core.HarnessError as e:
        print(f'HARNESS-ERROR {e}', file=sys.stderr)
        code = 2
    except Exception:  # noqa: BLE001
        traceback.print_exc()
        print('HARNESS-ERROR unexpected exception', file=sys.stderr)
        code = 2
    if code == 2:
        _drop_stale_evidence()
    sys.stdout.flush()
    sys.exit(code)
