"""World D — definitions (C13, C14).

Several live ``Definition`` objects, each shadowed by an ordered-table model.
After *every* event every live definition is compared with its model, which is
how stale cells, aliasing and order leaks show.
"""

from . import core
from .core import call, canon
from .refmodel_table import Table, Rejected
from . import seams

WORLD = 'D'

EDIT_KINDS = ['d_set', 'd_add_o', 'd_add_p', 'd_set_o', 'd_set_p', 'd_rm_o', 'd_rm_p',
              'd_ren_o', 'd_ren_p', 'd_mv_o', 'd_mv_p', 'd_rm_empty_o', 'd_rm_empty_p',
              'd_union_upd', 'd_inter_upd', 'd_getitem', 'd_set_int']
DERIVE_KINDS = ['d_copy', 'd_transposed', 'd_inverted', 'd_union', 'd_inter', 'd_take',
                'd_ctx_roundtrip', 'd_fresh']
CTX_KINDS = ['c_definition']
OTHER_KINDS = ['d_new', 'd_drop', 'set_order']


# ------------------------------------------------------------------ generator

def _names(rng, cfg):
    n_o, n_p, n_shared = cfg['n_obj_names'], cfg['n_prop_names'], cfg['n_shared']
    if cfg['long_names']:
        alphabet = 'abcdefghijklmnopqrstuvwxyzäöüß0123456789 _-+X.|#'
        def mk():
            # any string is a legal name of a Definition, also with blanks at either end or differing only there
            n = ''.join(rng.choice(alphabet) for _ in range(rng.randint(1, 6)))
            if rng.random() < 0.25 and pool:
                n = rng.choice([' {}', '{} ', ' {} ', '{}\t']).format(rng.choice(pool).strip() or 'q')
            return n or 'q'
        pool = []
        while len(pool) < n_o + n_p:
            n = mk()
            if n not in pool:
                pool.append(n)
        objs, props = pool[:n_o], pool[n_o:]
    else:
        objs = [f'o{i}' for i in range(n_o)]
        props = [f'p{i}' for i in range(n_p)]
    shared = [f's{i}' for i in range(n_shared)]
    return objs + shared, props + shared


def _config(rng, tier):
    kinds = EDIT_KINDS + DERIVE_KINDS + OTHER_KINDS + CTX_KINDS
    weights = {k: rng.choice([0, 1, 1, 2, 3, 5]) for k in kinds}
    weights['d_new'] = rng.choice([1, 2])
    weights['set_order'] = rng.choice([0, 1, 2])
    weights['d_set_int'] = rng.choice([0, 0, 1])
    big = rng.random() < 0.1
    return {'n_slots': rng.randint(1, 4),
            'n_obj_names': rng.randint(8, 14) if big else rng.randint(2, 5),
            'n_prop_names': rng.randint(8, 14) if big else rng.randint(2, 5),
            'n_shared': rng.choice([0, 0, 1, 2]),
            'long_names': rng.random() < 0.2,
            'n_events': rng.randint(150, 400) if rng.random() < 0.02 else rng.randint(1, 60 if tier == 'quick' else 120),
            'simset': rng.random() < 0.5,
            'weights': weights}


def _sub(rng, pool, lo=0, hi=4, dup=True):
    n = rng.randint(lo, min(hi, max(lo, len(pool) + 1)))
    out = [rng.choice(pool) for _ in range(n)] if pool else []
    if not dup:
        seen = []
        for x in out:
            if x not in seen:
                seen.append(x)
        out = seen
    return out


def generate(rng, seed, run, tier, xmode=False):
    cfg = _config(rng, tier)
    if xmode:
        cfg['simset'] = False
        cfg['xmode'] = True
        cfg['n_shared'] = rng.choice([0, 1, 2, 3])
    onames, pnames = _names(rng, cfg)
    n_slots = cfg['n_slots']
    shadow = [None] * n_slots   # light shadow state: the model itself
    events = []
    kinds = [k for k, w in cfg['weights'].items() if w]
    wts = [cfg['weights'][k] for k in kinds]

    def triple():
        objs = _sub(rng, onames, 0, 5, dup=rng.random() < 0.05)
        props = _sub(rng, pnames, 0, 5, dup=rng.random() < 0.05)
        dens = rng.choice([0.0, 0.2, 0.5, 0.5, 0.8, 1.0])
        bools = [[int(rng.random() < dens) for _ in props] for _ in objs]
        return objs, props, bools

    def oname(t, known=0.7):
        if t is not None and t.objs and rng.random() < known:
            return rng.choice(t.objs)
        return rng.choice(onames)

    def pname(t, known=0.7):
        if t is not None and t.props and rng.random() < known:
            return rng.choice(t.props)
        return rng.choice(pnames)

    def apply(ev):
        """Keep the shadow state current (best effort; the executor has its own)."""
        try:
            _model_apply(shadow, ev)
        except Rejected:
            pass

    first = ['d_new', rng.randrange(n_slots), *triple()]
    events.append(first)
    apply(first)
    while len(events) < cfg['n_events']:
        kind = rng.choices(kinds, wts)[0]
        live = [i for i, t in enumerate(shadow) if t is not None]
        if cfg.get('xmode') and rng.random() < 0.12:
            # error-provoking constructor calls whose messages list names
            common = rng.sample(onames + pnames, min(len(set(onames + pnames)), rng.randint(1, 4)))
            common = list(dict.fromkeys(common))
            objs = common + [n for n in rng.sample(onames, min(2, len(onames))) if n not in common]
            props = common[::-1] + [n for n in rng.sample(pnames, min(2, len(pnames))) if n not in common]
            r = rng.random()
            if rng.random() < 0.45:      # several distinct repeated names
                k = rng.randint(1, min(3, len(objs)))
                objs = objs + rng.sample(objs, k)
                if rng.random() < 0.5:
                    props = props + rng.sample(props, min(len(props), rng.randint(1, 3)))
            rng.shuffle(objs)
            if r < 0.08:
                # a big table: reprs, checksums and text dumps of objects beyond any size threshold
                events.append(['x_big', rng.choice([70, 130, 260, 300]), rng.choice([70, 260, 300, 520]), rng.randrange(1000)])
            elif r > 0.95:
                events.append(['x_format', rng.choice(['nope', 'CSV2', 'tablex', ''])])
            elif r > 0.8:
                # serialized form with several required keys missing / wrong
                d = {'objects': objs, 'properties': props, 'context': [[] for _ in objs]}
                for key in rng.sample(sorted(d), rng.randint(1, 3)):
                    del d[key]
                if rng.random() < 0.3:
                    d['lattice'] = []
                events.append(['x_fromdict', d])
            elif r > 0.7:
                events.append(['x_def', objs, props])
            else:
                events.append(['x_ctx', objs, props])
            continue
        if kind == 'd_new' or not live:
            ev = ['d_new', rng.randrange(n_slots), *triple()]
        elif kind == 'c_definition':
            # the same live Context asked for its definition again (earlier results may have been edited)
            ev = ['c_definition', rng.randrange(8), rng.randrange(n_slots)]
        elif kind == 'set_order':
            ev = ['set_order', rng.randrange(0, 6)]
        elif kind == 'd_drop':
            ev = ['d_drop', rng.choice(live)]
        else:
            s = rng.choice(live)
            t = shadow[s]
            dst = rng.randrange(n_slots)
            if kind == 'd_set':
                ev = [kind, s, oname(t), pname(t), int(rng.random() < 0.6)]
            elif kind == 'd_set_int':
                ev = [kind, s, rng.randrange(3), int(rng.random() < 0.5)]
            elif kind == 'd_getitem':
                ev = [kind, s, oname(t, 0.85), pname(t, 0.85)]
            elif kind in ('d_add_o', 'd_set_o'):
                pool = (t.props * 2 + pnames) if rng.random() < 0.8 else pnames
                ev = [kind, s, oname(t, 0.5), _sub(rng, pool)]
            elif kind in ('d_add_p', 'd_set_p'):
                pool = (t.objs * 2 + onames) if rng.random() < 0.8 else onames
                ev = [kind, s, pname(t, 0.5), _sub(rng, pool)]
            elif kind == 'd_rm_o':
                ev = [kind, s, oname(t, 0.9)]
            elif kind == 'd_rm_p':
                ev = [kind, s, pname(t, 0.9)]
            elif kind == 'd_ren_o':
                ev = [kind, s, oname(t, 0.9), oname(t, 0.25)]
            elif kind == 'd_ren_p':
                ev = [kind, s, pname(t, 0.9), pname(t, 0.25)]
            elif kind == 'd_mv_o':
                ev = [kind, s, oname(t, 0.9), rng.randrange(max(1, len(t.objs)))]
            elif kind == 'd_mv_p':
                ev = [kind, s, pname(t, 0.9), rng.randrange(max(1, len(t.props)))]
            elif kind in ('d_rm_empty_o', 'd_rm_empty_p'):
                ev = [kind, s]
            elif kind in ('d_union_upd', 'd_inter_upd'):
                ev = [kind, s, rng.choice(live), int(rng.random() < 0.4),
                      rng.choice(['method', 'op'])]
            elif kind in ('d_copy', 'd_fresh', 'd_ctx_roundtrip'):
                ev = [kind, s, dst]
            elif kind in ('d_transposed', 'd_inverted'):
                ev = [kind, s, dst, rng.choice(['method', 'op'])]
            elif kind in ('d_union', 'd_inter'):
                ev = [kind, s, rng.choice(live), int(rng.random() < 0.4), dst,
                      rng.choice(['method', 'op'])]
            elif kind == 'd_take':
                r = rng.random()
                unk = rng.random() < 0.25   # several unknown names: the error lists them
                objs = None if r < 0.3 else _sub(rng, t.objs * 3 + (onames if unk else onames[:1]), 0, 5 if unk else 4)
                r = rng.random()
                props = None if r < 0.3 else _sub(rng, t.props * 3 + (pnames if unk else pnames[:1]), 0, 5 if unk else 4)
                ev = [kind, s, objs, props, int(rng.random() < 0.5), dst]
            else:  # pragma: no cover
                raise AssertionError(kind)
        events.append(ev)
        apply(ev)
        # bias: a derive is followed by single edits on source and on result
        if ev[0] in DERIVE_KINDS and rng.random() < 0.7:
            for side in (ev[1], ev[-1] if ev[0] in ('d_copy', 'd_fresh', 'd_ctx_roundtrip', 'd_take')
                         else ev[-2]):
                t2 = shadow[side] if isinstance(side, int) and side < n_slots else None
                if t2 is None:
                    continue
                k2 = rng.choice(['d_set', 'd_add_o', 'd_rm_o', 'd_rm_p', 'd_ren_o', 'd_ren_p',
                                 'd_mv_o', 'd_mv_p', 'd_set_p', 'd_add_p'])
                if k2 == 'd_set':
                    e2 = [k2, side, oname(t2), pname(t2), int(rng.random() < 0.5)]
                elif k2 == 'd_add_o':
                    e2 = [k2, side, oname(t2, 0.3), _sub(rng, t2.props + pnames)]
                elif k2 in ('d_add_p', 'd_set_p'):
                    e2 = [k2, side, pname(t2, 0.3), _sub(rng, t2.objs + onames)]
                elif k2 == 'd_rm_o':
                    e2 = [k2, side, oname(t2, 1.0)]
                elif k2 == 'd_rm_p':
                    e2 = [k2, side, pname(t2, 1.0)]
                elif k2 == 'd_ren_o':
                    e2 = [k2, side, oname(t2, 1.0), oname(None)]
                elif k2 == 'd_ren_p':
                    e2 = [k2, side, pname(t2, 1.0), pname(None)]
                elif k2 == 'd_mv_o':
                    e2 = [k2, side, oname(t2, 1.0), rng.randrange(max(1, len(t2.objs)))]
                else:
                    e2 = [k2, side, pname(t2, 1.0), rng.randrange(max(1, len(t2.props)))]
                events.append(e2)
                apply(e2)
    return {'world': WORLD, 'seed': seed, 'run': run,
            'config': {k: v for k, v in cfg.items() if k != 'weights'},
            'events': events}


def simplify(plan):
    """Argument-level simplifications tried after ddmin: shorter name lists, smaller initial tables."""
    cfg = plan['config']
    events = plan['events']
    if cfg.get('simset'):
        yield dict(plan, config=dict(cfg, simset=False))

    def with_event(i, ev2):
        return dict(plan, events=events[:i] + [ev2] + events[i + 1:])

    for i, ev in enumerate(events):
        kind = ev[0]
        if kind == 'd_new':
            _, s, objs, props, bools = ev
            for k in range(len(objs)):
                yield with_event(i, [kind, s, objs[:k] + objs[k + 1:], props, bools[:k] + bools[k + 1:]])
            for k in range(len(props)):
                yield with_event(i, [kind, s, objs, props[:k] + props[k + 1:], [r[:k] + r[k + 1:] for r in bools]])
            for a, r in enumerate(bools):
                for b, v in enumerate(r):
                    if v:
                        b2 = [list(x) for x in bools]
                        b2[a][b] = 0
                        yield with_event(i, [kind, s, objs, props, b2])
        elif kind in ('d_add_o', 'd_add_p', 'd_set_o', 'd_set_p'):
            for k in range(len(ev[3])):
                yield with_event(i, [kind, ev[1], ev[2], ev[3][:k] + ev[3][k + 1:]])
        elif kind == 'd_take':
            for pos in (2, 3):
                if ev[pos]:
                    for k in range(len(ev[pos])):
                        ev2 = list(ev)
                        ev2[pos] = ev[pos][:k] + ev[pos][k + 1:]
                        yield with_event(i, ev2)


def _model_apply(models, ev):
    """Apply ``ev`` to the list of slot models; returns (ret, dst) or raises Rejected."""
    kind = ev[0]
    if kind in ('set_order', 'x_ctx', 'x_def', 'x_fromdict', 'x_format', 'x_big'):
        return None
    if kind == 'c_definition':
        return None   # handled by the executor (needs the live contexts)
    if kind == 'd_new':
        _, s, objs, props, bools = ev
        models[s] = None
        models[s] = Table.fromtriple(objs, props, bools)
        return None
    s = ev[1]
    m = models[s] if s < len(models) else None
    if m is None:
        return None
    if kind == 'd_drop':
        models[s] = None
    elif kind == 'd_set':
        m.setitem(ev[2], ev[3], ev[4])
    elif kind == 'd_set_int':
        raise Rejected('int key')
    elif kind == 'd_getitem':
        if ev[2] not in m.objs or ev[3] not in m.props:
            raise Rejected('unknown')
        return (ev[2], ev[3]) in m.cells
    elif kind == 'd_add_o':
        m.add_object(ev[2], ev[3])
    elif kind == 'd_add_p':
        m.add_property(ev[2], ev[3])
    elif kind == 'd_set_o':
        m.set_object(ev[2], ev[3])
    elif kind == 'd_set_p':
        m.set_property(ev[2], ev[3])
    elif kind == 'd_rm_o':
        m.remove_object(ev[2])
    elif kind == 'd_rm_p':
        m.remove_property(ev[2])
    elif kind == 'd_ren_o':
        m.rename_object(ev[2], ev[3])
    elif kind == 'd_ren_p':
        m.rename_property(ev[2], ev[3])
    elif kind == 'd_mv_o':
        m.move_object(ev[2], ev[3])
    elif kind == 'd_mv_p':
        m.move_property(ev[2], ev[3])
    elif kind == 'd_rm_empty_o':
        return m.remove_empty_objects()
    elif kind == 'd_rm_empty_p':
        return m.remove_empty_properties()
    elif kind in ('d_union_upd', 'd_inter_upd'):
        t = models[ev[2]]
        if t is None:
            return None
        ign = bool(ev[3]) and ev[4] == 'method'
        (m.union_update if kind == 'd_union_upd' else m.intersection_update)(t, ign)
    elif kind in ('d_copy', 'd_fresh', 'd_ctx_roundtrip'):
        if kind == 'd_ctx_roundtrip' and not m.context_valid():
            return None
        models[ev[2]] = m.copy()
    elif kind == 'd_transposed':
        models[ev[2]] = m.transposed()
    elif kind == 'd_inverted':
        models[ev[2]] = m.inverted()
    elif kind in ('d_union', 'd_inter'):
        t = models[ev[2]]
        if t is None:
            return None
        ign = bool(ev[3]) and ev[5] == 'method'
        models[ev[4]] = (m.union if kind == 'd_union' else m.intersection)(t, ign)
    elif kind == 'd_take':
        models[ev[5]] = m.take(ev[2], ev[3], bool(ev[4]))
    else:  # pragma: no cover
        raise AssertionError(kind)
    return None


# ------------------------------------------------------------------- executor

class _Groups:
    """Derivation lineage (who was derived from whom) as union-find over slots."""

    def __init__(self, n):
        self.gid = list(range(n))
        self.next = n

    def fresh(self, s):
        self.gid[s] = self.next
        self.next += 1

    def join(self, dst, *srcs):
        g = self.gid[srcs[0]]
        for s in srcs[1:]:
            old = self.gid[s]
            self.gid = [g if x == old else x for x in self.gid]
        self.gid[dst] = g

    def related(self, a, b):
        return self.gid[a] == self.gid[b]


def execute(plan, rec):
    import concepts  # noqa: F401
    from concepts import Definition, Context

    cfg = plan['config']
    n_slots = cfg['n_slots']
    defs = [None] * n_slots
    models = [None] * n_slots
    groups = _Groups(n_slots)
    ctxs = []     # live Context objects with the triple they were built from
    use_simset = bool(cfg.get('simset'))
    if use_simset:
        seams.install_simset()
        seams.SimSet.order_seed = 0
        seams.SimSet.iterations = 0
        seams.SimSet.permuted = 0

    def snapshot():
        return [None if d is None else _triple_of(d) for d in defs]

    def _triple_of(d):
        b = d.bools
        t = (tuple(d.objects), tuple(d.properties), [tuple(r) for r in b])
        core.scramble(b)   # the caller owns the returned list
        return t

    def audit(receiver, dsts=(), rejected=False):
        for i, (d, m) in enumerate(zip(defs, models)):
            if d is None:
                continue
            got = _triple_of(d)
            want = m.triple()
            ok = got == want

            def detail(i=i, got=got, want=want):
                return f'slot {i}: got {got!r} model {want!r}'
            if i in dsts:
                if rec.want('C14'):
                    rec.check('C14.derived_eq_model', ok, detail)
                elif not ok:
                    defs[i] = models[i] = None  # tainted by another property's failure
                    rec.log(f'taint {i}')
                    continue
            elif i == receiver:
                rec.check('C13.reject_raises_unchanged' if rejected else 'C13.state_eq_model',
                          ok, detail)
                if not ok:  # only reachable when C13 is not being checked
                    defs[i] = models[i] = None
                    rec.log(f'taint {i}')
                    continue
            elif receiver is not None and groups.related(i, receiver):
                if rec.want('C14'):
                    rec.check('C14.other_side_unchanged', ok, detail)
                elif not ok:
                    defs[i] = models[i] = None
                    rec.log(f'taint {i}')
                    continue
            else:
                rec.check('C13.state_eq_model', ok, detail)
                if not ok:
                    defs[i] = models[i] = None
                    rec.log(f'taint {i}')
                    continue
            # shape of bools and residue test (hidden cell set vs visible triple)
            objs, prps, bools = got
            if rec.want('C14') and objs and prps:
                import fractions
                fr = call(lambda d=d: (tuple(d.shape), d.fill_ratio))
                n_true = sum(sum(r) for r in want[2])
                rec.check('C14.shape_fill_ratio',
                          fr.ok and fr.value == ((len(objs), len(prps)), fractions.Fraction(n_true, len(objs) * len(prps))),
                          lambda i=i, fr=fr: f'slot {i}: shape/fill_ratio {fr.text()} for {want!r}')
            rec.check('C13.bools_shape',
                      len(bools) == len(objs) and all(len(r) == len(prps) for r in bools),
                      lambda got=got: f'slot {i}: ragged {got!r}')
            parts = call(lambda d=d: (list(d), [d[0], d[1], d[2]]))    # unpacking and integer indexing
            rec.check('C13.iter_getitem_eq_triple',
                      parts.ok and [tuple(parts.value[0][0]), tuple(parts.value[0][1]), [tuple(r) for r in parts.value[0][2]]] == list(got)
                      and [tuple(parts.value[1][0]), tuple(parts.value[1][1]), [tuple(r) for r in parts.value[1][2]]] == list(got),
                      lambda i=i, parts=parts: f'slot {i}: list(d) / d[0..2] = {parts.text()[:400]} but the triple is {got!r}')
            tup = call(lambda d=d, got=got: (d == got, d != got))   # documented: d == (objects, properties, bools)
            rec.check('C13.eq_own_triple', tup.ok and tup.value == (True, False),
                      lambda i=i, tup=tup: f'slot {i}: d == (d.objects, d.properties, d.bools) gives {tup.text()}')
            fresh = call(Definition, *got)
            if fresh.ok:
                eq1 = call(lambda a, b: a == b, d, fresh.value)
                eq2 = call(lambda a, b: a == b, fresh.value, d)
                ne = call(lambda a, b: a != b, d, fresh.value)
                rec.check('C13.eq_fresh_from_triple',
                          eq1.ok and eq2.ok and ne.ok and eq1.value is True and eq2.value is True
                          and ne.value is False,
                          lambda i=i, got=got, d=d: f'slot {i}: residue: {got!r} pairs={sorted(d._pairs, key=repr)!r}')
            else:
                rec.check('C13.eq_fresh_from_triple', False,
                          lambda i=i, fresh=fresh: f'slot {i}: Definition(*d) raised {fresh.text()}')
        rec.state(canon([None if m is None else m.key() for m in models]))

    for index, ev in enumerate(plan['events']):
        rec.begin(index, ev)
        kind = ev[0]
        rec.sched_step(kind, ev[1] if len(ev) > 1 and isinstance(ev[1], int) else '')
        if kind == 'c_definition':
            if not ctxs:
                rec.log('noop')
                continue
            ctx, want = ctxs[ev[1] % len(ctxs)]
            dst = ev[2]
            out = call(ctx.definition)
            okv = out.ok and isinstance(out.value, Definition)
            rec.check('C14.ctx_def_inverse',
                      okv and all(out.value is not x for x in defs)
                      and (tuple(out.value.objects), tuple(out.value.properties), [tuple(r) for r in out.value.bools]) == want,
                      lambda: f'context.definition() on a live context built from {want!r} gives {out.text()[:400]}')
            now = call(lambda: (ctx.objects, ctx.properties, ctx.bools))
            rec.check('C14.ctx_unchanged', now.ok and now.value == want,
                      lambda: f'a live context built from {want!r} now reports {now.text()[:400]}')
            if okv and (tuple(out.value.objects), tuple(out.value.properties), [tuple(r) for r in out.value.bools]) == want:
                defs[dst] = out.value
                models[dst] = Table.fromtriple(*want)
                groups.fresh(dst)
            rec.log(out.text() if not out.ok else 'ok')
            audit(dst, dsts=(dst,))
            continue
        if kind == 'x_format':
            out = call(Context.fromstring, 'x', ev[1])
            out2 = call(lambda: Context(['o'], ['p'], [(True,)]).tostring(ev[1]))
            rec.log(out.text() + ' / ' + out2.text())
            continue
        if kind == 'x_big':
            _, n, m, k = ev
            objs = [f'o{i}' for i in range(n)]
            props = [f'p{j}' for j in range(m)]
            bools = [tuple((i * 7 + j * 13 + k) % 11 < 2 or i == j for j in range(m)) for i in range(n)]
            c = call(Context, objs, props, bools)
            dd = call(Definition, objs, props, bools)
            import hashlib
            for name, fn in (('repr', lambda x: core.mask(repr(x))), ('crc32', lambda x: x.crc32()),
                             ('str', lambda x: hashlib.sha256(core.mask(str(x)).encode()).hexdigest()[:16]),
                             ('csv', lambda x: hashlib.sha256(x.tostring('csv').encode()).hexdigest()[:16]),
                             ('shape', lambda x: (tuple(x.shape), str(x.fill_ratio)))):
                for what, o in (('context', c), ('definition', dd)):
                    rec.log(f'{what}.{name} ' + (call(fn, o.value).text() if o.ok else o.text()))
            continue
        if kind == 'x_ctx':
            out = call(Context, ev[1], ev[2], [tuple(False for _ in ev[2]) for _ in ev[1]])
            rec.log(out.text())
            continue
        if kind == 'x_def':
            out = call(Definition, ev[1], ev[2], [tuple(False for _ in ev[2]) for _ in ev[1]])
            rec.log(out.text() if not out.ok else canon(_triple_of(out.value)))
            continue
        if kind == 'x_fromdict':
            out = call(Context.fromdict, dict(ev[1]))
            rec.log(out.text())
            continue
        if kind == 'set_order':
            if use_simset:
                seams.SimSet.order_seed = ev[1]
            rec.log('ok')
            continue
        if kind == 'd_new':
            _, s, objs, props, bools = ev
            out = call(Definition, objs, props, [tuple(bool(b) for b in r) for r in bools] if index % 2 else
                       [list(r) for r in bools])   # cells by truthiness (0/1 ints)
            try:
                _model_apply(models, ev)
                accepted = True
            except Rejected:
                accepted = False
                rec.fault('rejected_call')
            groups.fresh(s)
            if accepted:
                rec.check('C13.state_eq_model', out.ok, lambda: f'constructor raised {out.text()}')
                defs[s] = out.value if out.ok else None
                if not out.ok:
                    models[s] = None
            else:
                rec.check('C13.reject_raises_unchanged', not out.ok,
                          lambda: f'constructor accepted duplicates {objs!r} {props!r}')
                defs[s] = None
                models[s] = None
            rec.log(out.text())
            audit(s)
            continue
        s = ev[1]
        d = defs[s] if s < n_slots else None
        if d is None:
            rec.log('noop')
            continue
        if kind in ('d_mv_o', 'd_mv_p'):
            axis = models[s].objs if kind == 'd_mv_o' else models[s].props
            if not 0 <= ev[3] < max(1, len(axis)):
                rec.log('noop')  # index outside 0..len-1 is unspecified
                continue
        if kind == 'd_drop':
            defs[s] = models[s] = None
            rec.log('ok')
            audit(None)
            continue

        dsts = ()
        derived = kind in DERIVE_KINDS
        before = snapshot()
        # ---- the library call
        if kind == 'd_set':
            out = call(d.__setitem__, (ev[2], ev[3]), bool(ev[4]))
        elif kind == 'd_set_int':
            out = call(d.__setitem__, ev[2], bool(ev[3]))
        elif kind == 'd_getitem':
            out = call(d.__getitem__, (ev[2], ev[3]))
        elif kind == 'd_add_o':     # only non-default arguments are passed, so that the defaults are exercised
            out = call(d.add_object, ev[2], list(ev[3])) if ev[3] else call(d.add_object, ev[2])
        elif kind == 'd_add_p':
            out = call(d.add_property, ev[2], list(ev[3])) if ev[3] else call(d.add_property, ev[2])
        elif kind == 'd_set_o':
            out = call(d.set_object, ev[2], list(ev[3]))
        elif kind == 'd_set_p':
            out = call(d.set_property, ev[2], list(ev[3]))
        elif kind == 'd_rm_o':
            out = call(d.remove_object, ev[2])
        elif kind == 'd_rm_p':
            out = call(d.remove_property, ev[2])
        elif kind == 'd_ren_o':
            out = call(d.rename_object, ev[2], ev[3])
        elif kind == 'd_ren_p':
            out = call(d.rename_property, ev[2], ev[3])
        elif kind == 'd_mv_o':
            out = call(d.move_object, ev[2], ev[3])
        elif kind == 'd_mv_p':
            out = call(d.move_property, ev[2], ev[3])
        elif kind == 'd_rm_empty_o':
            out = call(d.remove_empty_objects)
        elif kind == 'd_rm_empty_p':
            out = call(d.remove_empty_properties)
        elif kind in ('d_union_upd', 'd_inter_upd'):
            t = defs[ev[2]] if ev[2] < n_slots else None
            if t is None:
                rec.log('noop')
                continue
            if ev[4] == 'op':
                def _iop(d=d, t=t, kind=kind):
                    x = d
                    if kind == 'd_union_upd':
                        x |= t
                    else:
                        x &= t
                    return x is d
                out = call(_iop)
            else:
                meth = d.union_update if kind == 'd_union_upd' else d.intersection_update
                out = call(meth, t, True) if ev[3] else call(meth, t)
        elif kind == 'd_copy':
            out = call(d.copy)
            dsts = (ev[2],)
        elif kind == 'd_fresh':
            out = call(lambda d=d: Definition(*d))
            dsts = (ev[2],)
        elif kind == 'd_ctx_roundtrip':
            out = _ctx_roundtrip(rec, d, models[s], defs, models, Context, Definition, ctxs)
            if out is None:
                rec.log('invalid-context ' + call(lambda d=d: Context(*d)).text())
                audit(s)
                continue
            dsts = (ev[2],)
        elif kind == 'd_transposed':
            out = call(d.transposed) if ev[3] == 'method' else call(lambda d=d: -d)
            dsts = (ev[2],)
        elif kind == 'd_inverted':
            out = call(d.inverted) if ev[3] == 'method' else call(lambda d=d: ~d)
            dsts = (ev[2],)
        elif kind in ('d_union', 'd_inter'):
            t = defs[ev[2]] if ev[2] < n_slots else None
            if t is None:
                rec.log('noop')
                continue
            if ev[5] == 'op':
                out = call((lambda d=d, t=t: d | t) if kind == 'd_union' else (lambda d=d, t=t: d & t))
            else:
                meth = d.union if kind == 'd_union' else d.intersection
                out = call(meth, t, ignore_conflicts=True) if ev[3] else call(meth, t)
            dsts = (ev[4],)
        elif kind == 'd_take':
            seq = tuple if index % 3 == 0 else list      # any Sequence of names
            objs = None if ev[2] is None else seq(ev[2])
            prps = None if ev[3] is None else seq(ev[3])
            kw = {}
            if objs is not None:
                kw['objects'] = objs
            if prps is not None:
                kw['properties'] = prps
            if ev[4]:
                kw['reorder'] = True
            out = call(d.take, **kw) if index % 2 else (
                call(d.take, objs, prps, True) if ev[4] else (call(d.take, objs, prps) if prps is not None else
                                                              (call(d.take, objs) if objs is not None else call(d.take))))
            dsts = (ev[5],)
        else:  # pragma: no cover
            raise core.HarnessError(f'unknown event {ev!r}')

        # ---- the model
        try:
            ret = _model_apply(models, ev)
            rejected = False
        except Rejected:
            ret, rejected = None, True
            rec.fault('rejected_call')

        prop = 'C14' if derived else 'C13'
        if rejected:
            rec.check(f'{prop}.reject_raises' if derived else 'C13.reject_raises_unchanged',
                      not out.ok, lambda: f'{ev!r}: model rejects, library returned {out.text()}')
            if out.ok and derived and not rec.want('C14'):
                pass  # nothing stored: dst keeps its old content in both worlds
            after = snapshot()
            unchanged = after == before
            rec.check(f'{prop}.reject_unchanged' if derived else 'C13.reject_raises_unchanged',
                      unchanged, lambda: f'{ev!r}: rejected call changed state {before!r} -> {after!r}')
            rec.log(out.text(with_message=True))
            audit(s, rejected=True)
            continue

        if derived:
            dst = dsts[0]
            if not out.ok or not isinstance(out.value, Definition):
                rec.check('C14.derived_eq_model', False,
                          lambda: f'{ev!r}: model accepts, library gave {out.text()}')
                defs[dst] = models[dst] = None  # C14 not checked: taint
            else:
                rec.check('C14.result_is_new_object', all(out.value is not x for x in defs),
                          lambda: f'{ev!r}: returned an existing definition')
                defs[dst] = out.value
                if kind in ('d_union', 'd_inter'):
                    groups.join(dst, s, ev[2])
                else:
                    groups.join(dst, s)
                if kind in ('d_transposed', 'd_inverted'):
                    # involution
                    twice = call(lambda v=out.value, k=kind: (v.transposed().transposed() if k == 'd_transposed'
                                                              else v.inverted().inverted()))
                    rec.check('C14.involution',
                              twice.ok and _triple_of(twice.value) == models[dst].triple(),
                              lambda: f'{ev!r}: double application differs')
            rec.log(out.text() if not out.ok else canon(_triple_of(out.value)))
            audit(s, dsts=dsts)
            continue

        # accepted edit
        rec.check('C13.return_eq_model' if kind != 'd_getitem' else 'C13.getitem_eq_model',
                  out.ok and (out.value == ret if kind in ('d_rm_empty_o', 'd_rm_empty_p', 'd_getitem')
                              else (out.value is None or out.value is True)),
                  lambda: f'{ev!r}: model returns {ret!r}, library {out.text()}')
        if not out.ok and not rec.want('C13'):
            defs[s] = models[s] = None
        rec.log(out.text())
        if cfg.get('xmode') and defs[s] is not None:
            rec.log('repr ' + call(lambda: core.mask(repr(defs[s]))).text() + ' str ' + call(lambda: str(defs[s])).text())
        if out.ok and isinstance(out.value, list):
            core.scramble(out.value)
            rec.fault('caller_mutates_result')
        audit(s)

    if use_simset:
        rec.probe('simset_orders_consumed', seams.SimSet.iterations)
        rec.fault('set_order_permutation', seams.SimSet.permuted)
        seams.uninstall_simset()
    return rec


def _ctx_roundtrip(rec, d, model, defs, models, Context, Definition, ctxs=None):
    """Context(*d).definition() and the Context<->Definition agreement clauses."""
    valid = model.context_valid()
    c = call(lambda: Context(*d))
    if not valid:
        return None
    if not c.ok:
        rec.check('C14.ctx_def_inverse', False, lambda: f'Context(*d) raised {c.text()} for valid {model.triple()!r}')
        return None
    ctx = c.value
    if ctxs is not None:
        if len(ctxs) >= 4:
            del ctxs[0]
        ctxs.append((ctx, model.triple()))
    back = call(ctx.definition)
    rec.check('C14.ctx_def_inverse',
              back.ok and (back.value == d) is True and (d == back.value) is True
              and (tuple(back.value.objects), tuple(back.value.properties), back.value.bools)
              == (tuple(d.objects), tuple(d.properties), d.bools),
              lambda: f'Context(*d).definition() != d: {back.text()}')
    again = call(lambda: Context(*ctx.definition()))
    rec.check('C14.ctx_def_inverse', again.ok and (again.value == ctx) is True and (again.value != ctx) is False,
              lambda: f'Context(*c.definition()) != c: {again.text()}')
    want = model.triple()
    rec.check('C14.ctx_triple', (ctx.objects, ctx.properties, ctx.bools) == want,
              lambda: f'context triple {(ctx.objects, ctx.properties, ctx.bools)!r} != {want!r}')
    # equality of contexts iff equality of triples
    for d2, m2 in zip(defs, models):
        if d2 is None or not m2.context_valid():
            continue
        c2 = call(lambda d2=d2: Context(*d2))
        if not c2.ok:
            continue
        same = m2.triple() == want
        rec.check('C14.ctx_eq_iff_triples',
                  (ctx == c2.value) is same and (ctx != c2.value) is (not same),
                  lambda: f'context equality wrong for {want!r} vs {m2.triple()!r}')
    # same names in another order / same cells under other names are different contexts
    o, p_, b = want
    variants = []
    if len(o) > 1:
        variants.append((o[1:] + o[:1], p_, b[1:] + b[:1]))
        variants.append((o[1:] + o[:1], p_, b))
    if len(p_) > 1:
        variants.append((o, p_[1:] + p_[:1], [r[1:] + r[:1] for r in b]))
    for vo, vp, vb in variants:
        other = call(Context, vo, vp, vb)
        if other.ok:
            same = (tuple(vo), tuple(vp), [tuple(r) for r in vb]) == want
            rec.check('C14.ctx_eq_iff_triples', (ctx == other.value) is same and (ctx != other.value) is (not same),
                      lambda: f'context equality wrong for {want!r} vs {(vo, vp, vb)!r}')
    for name, f in (('shape', lambda x: tuple(x.shape)), ('fill_ratio', lambda x: x.fill_ratio),
                    ('tostring', lambda x: x.tostring()), ('crc32', lambda x: x.crc32()),
                    ('csv', lambda x: x.tostring('csv')), ('cxt', lambda x: x.tostring('cxt'))):
        a, b = call(f, ctx), call(f, d)
        rec.check('C14.ctx_def_agree', a.ok and b.ok and a.value == b.value,
                  lambda: f'{name}: context {a.text()} definition {b.text()}')
    call(repr, ctx)
    for enc in ('utf-8', 'utf-16', 'latin-1', 'utf-32'):
        a, b = call(ctx.crc32, enc), call(lambda enc=enc: d.crc32(encoding=enc))
        if not a.ok and not b.ok:
            continue     # labels not encodable: both sides refuse
        rec.check('C14.ctx_def_agree', a.ok and b.ok and a.value == b.value,
                  lambda: f'crc32({enc}): context {a.text()} definition {b.text()}')
    n_true = sum(sum(r) for r in want[2])
    import fractions
    rec.check('C14.ctx_def_agree',
              tuple(ctx.shape) == (len(want[0]), len(want[1]))
              and ctx.fill_ratio == fractions.Fraction(n_true, len(want[0]) * len(want[1])),
              lambda: f'shape/fill_ratio differ from model for {want!r}')
    return back


def run_one(arg):
    """Entry point for ``core.isolated_call``: arg = {'plan':…, 'props':[…]}."""
    rec = core.Recorder(arg['plan'], arg['props'], arg.get('known'))
    try:
        execute(arg['plan'], rec)
        return rec.result()
    except core.Violation as v:
        return rec.result(v)
    except core.INTERPRETATION_ERRORS as e:
        if not rec.props:
            raise
        return rec.result(core.uninterpretable(rec, e))
    finally:
        seams.uninstall_simset()
