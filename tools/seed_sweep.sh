#!/bin/bash
# Robustness against false alarms: every quick check under several VERIF_SEED values on the unchanged tree.
# Evidence of these runs goes to a scratch directory, never to /verif/evidence.
cd "$(dirname "$0")/.." || exit 2
seeds="${@:-1 2 3 4 5}"
rc=0
export VERIF_EVIDENCE_DIR=/tmp/verif-seed-sweep-evidence
for seed in $seeds; do
  for p in C01 C02 C05 C09 C10 C11 C12 C13 C14 C17; do
    out=$(VERIF_SEED=$seed /venv/bin/python checks/run.py $p --tier quick 2>&1 | grep -v WARNING)
    code=$?
    line=$(echo "$out" | grep -E "quick seed" | cut -c1-150)
    bad=$(echo "$out" | grep -E "^VIOLATION|HARNESS-ERROR")
    echo "seed=$seed $line"
    if [ -n "$bad" ]; then echo "  !! $bad"; rc=1; fi
  done
done
exit $rc
