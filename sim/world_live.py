"""World L — live objects in one process (C01, C02, C05, C09, C10).

Several live contexts (label tuples recur across slots with different tables),
their lattices obtained through every construction path, suspended library
generators advanced one ``next()`` per event by the plan, and persistence
events (same-process / foreign / colliding unpickle, dict and literal round
trips) used as disturbances.  After every event the enabled property's oracle
is re-evaluated against the brute-force FCA model for *every* live object.
"""

import gc
import pickle

from . import core
from .core import call, canon
from .refmodel_fca import FCA, bits, mask_of
from . import seams
from . import storeutil

WORLD = 'L'

KINDS = ['ctx_new', 'ctx_drop', 'gc', 'lat_force', 'lat_direct', 'orphan_new', 'ctx_copy', 'dict_rt', 'literal_rt',
         'q_lat_slice',
         'q_int', 'q_ext', 'q_get', 'q_lat_get', 'q_lat_idx', 'q_lat_top', 'q_lat_call',
         'q_neighbors', 'q_links', 'q_labels',
         'h_open', 'h_step', 'h_close', 'h_abandon',
         'pk_ctx', 'pk_lat', 'pk_foreign', 'set_order']

DISTURB = ['pk_ctx', 'pk_lat', 'pk_foreign', 'dict_rt', 'literal_rt', 'ctx_copy', 'gc', 'ctx_drop',
           'set_order', 'lat_direct', 'q_lat_slice', 'orphan_new']

FOCUS = {
    'C01': {'q_int': 8, 'q_ext': 8, 'q_get': 1, 'pk_foreign': 4, 'pk_ctx': 2, 'h_open': 1, 'h_step': 2},
    'C02': {'q_get': 6, 'q_lat_get': 6, 'q_lat_idx': 2, 'q_lat_slice': 2, 'lat_direct': 1, 'q_lat_top': 1, 'q_lat_call': 5,
            'lat_force': 2, 'dict_rt': 3, 'pk_lat': 3, 'pk_foreign': 2, 'literal_rt': 1},
    'C05': {'orphan_new': 1, 'q_neighbors': 7, 'q_links': 5, 'lat_direct': 1, 'h_open': 4, 'h_step': 10, 'h_close': 1, 'h_abandon': 1,
            'lat_force': 2, 'dict_rt': 2, 'pk_lat': 2, 'pk_foreign': 2},
    'C09': {'orphan_new': 1, 'lat_direct': 1, 'h_open': 6, 'h_step': 14, 'h_close': 2, 'h_abandon': 2, 'lat_force': 2, 'set_order': 2,
            'pk_lat': 2, 'dict_rt': 1, 'gc': 1},
    'C10': {'orphan_new': 2, 'lat_force': 4, 'lat_direct': 3, 'dict_rt': 4, 'pk_lat': 4, 'pk_ctx': 2, 'pk_foreign': 3, 'ctx_copy': 2,
            'literal_rt': 2, 'q_labels': 4, 'ctx_drop': 1, 'gc': 1, 'set_order': 2},
}

OBJ_NAMES = ['a', 'b', 'c', 'd', 'e', 'f', 'g', 'h', 'zz', 'Ä', 'o 1', 'x-y', 'ab', 'ba']
PROP_NAMES = ['1', '2', '3', '4', '5', '6', '7', '8', '+p', 'q.', 'ß', 'P Q', '12', '21']


# ------------------------------------------------------------------ generator

def gen_table(rng, n, m):
    """Rows as property bitmasks; biased to the fill patterns the properties name."""
    full = (1 << m) - 1
    pat = rng.choice(['random', 'random', 'dups', 'chain', 'nominal', 'contranominal',
                      'sparse', 'dense', 'blocks', 'interval', 'nested', 'chain_antichain', 'many_dups'])
    if n * m > 200 and pat in ('random', 'dups', 'dense', 'contranominal'):
        pat = rng.choice(['sparse', 'nominal', 'chain', 'interval', 'blocks', 'nested', 'chain_antichain'])
    if pat == 'chain':
        rows = [(1 << min(m, (i * m) // max(1, n - 1) if n > 1 else m)) - 1 for i in range(n)]
        rng.shuffle(rows)
    elif pat == 'nominal':
        rows = [1 << (i % m) for i in range(n)]
    elif pat == 'contranominal':
        rows = [full & ~(1 << (i % m)) for i in range(n)]
    elif pat == 'nested':
        # row inclusion chains with gaps, plus rows that are intersections of two others
        rows = []
        cur = full
        for i in range(n):
            if rng.random() < 0.6 and cur:
                cur &= ~(1 << rng.randrange(m))
            rows.append(cur if rng.random() < 0.8 else cur & rng.getrandbits(m))
        rng.shuffle(rows)
    elif pat == 'chain_antichain':
        k = max(1, n // 2)
        rows = [(1 << min(m, 1 + (i * m) // k)) - 1 for i in range(k)]
        rows += [1 << ((i * 3 + 1) % m) | 1 for i in range(n - k)]
        rng.shuffle(rows)
    elif pat == 'many_dups':
        base = [sum((rng.random() < 0.5) << j for j in range(m)) for _ in range(rng.randint(1, 3))] + [full]
        rows = [rng.choice(base) for _ in range(n)]
    elif pat == 'blocks':
        k = rng.randint(1, max(1, m // 2))
        rows = [(((1 << k) - 1) << rng.randrange(0, m - k + 1)) for _ in range(n)]
    elif pat == 'interval':
        rows = []
        for _ in range(n):
            a, b = sorted((rng.randrange(m + 1), rng.randrange(m + 1)))
            rows.append(((1 << b) - 1) & ~((1 << a) - 1))
    else:
        dens = {'random': rng.choice([0.3, 0.5, 0.6, 0.75]), 'dups': 0.5,
                'sparse': 0.15, 'dense': 0.88}[pat]
        rows = [sum((rng.random() < dens) << j for j in range(m)) for _ in range(n)]
        if pat == 'dups' and n > 1:
            for _ in range(rng.randint(1, n)):
                rows[rng.randrange(n)] = rows[rng.randrange(n)]
    # decorate: empty/full rows and columns, duplicated column, isolated high bit
    for _ in range(rng.choice([0, 0, 1, 1, 2, 4])):
        what = rng.choice(['empty_row', 'full_row', 'empty_col', 'full_col', 'dup_col', 'dup_row',
                           'high_bit'])
        i, j = rng.randrange(n), rng.randrange(m)
        if what == 'empty_row':
            rows[i] = 0
        elif what == 'full_row':
            rows[i] = full
        elif what == 'empty_col':
            rows = [r & ~(1 << j) for r in rows]
        elif what == 'full_col':
            rows = [r | (1 << j) for r in rows]
        elif what == 'dup_col' and m > 1:
            j2 = rng.randrange(m)
            rows = [(r & ~(1 << j)) | ((r >> j2 & 1) << j) for r in rows]
        elif what == 'dup_row' and n > 1:
            rows[i] = rows[rng.randrange(n)]
        elif what == 'high_bit':
            rows[i] = 1 << (m - 1)
    return rows


def gen_shape(rng, cfg):
    r = rng.random()
    if r > 1 - cfg.get('p_medium', 0):
        # neither small nor one of the special wide shapes
        if rng.random() < 0.25:
            # both axes beyond the small range at once (two-digit positions, word boundaries on both sides);
            # gen_table keeps such tables structured/sparse so that the lattice stays small
            k = rng.choice([17, 31, 32, 33, 63, 64, 65])
            return k, rng.choice([k, 12, 33])
        return rng.randint(8, 16), rng.randint(5, 12)
    if r < cfg['p_wide']:
        big = rng.choice([33, 61, 63, 64, 65, 66, 70, 100, 127, 128, 129, 130])
        small = rng.randint(1, 4)
        return (big, small) if rng.random() < 0.5 else (small, big)
    if r < cfg['p_wide'] + 0.1:
        return rng.randint(1, 2), rng.randint(1, 2)
    return rng.randint(2, cfg['max_n']), rng.randint(2, cfg['max_m'])


def gen_labels(rng, n, m):
    if n <= len(OBJ_NAMES) and m <= len(PROP_NAMES):
        objs = rng.sample(OBJ_NAMES, n)
        props = rng.sample(PROP_NAMES, m)
    else:
        objs = [f'o{i}' for i in range(n)] if n > len(OBJ_NAMES) else rng.sample(OBJ_NAMES, n)
        props = [f'p{j}' for j in range(m)] if m > len(PROP_NAMES) else rng.sample(PROP_NAMES, m)
    return [objs, props]


def _config(rng, tier, focus):
    w = {k: rng.choice([0, 1, 1, 2]) for k in KINDS}
    for k, v in FOCUS.get(focus, {}).items():
        w[k] = v * rng.choice([1, 1, 2])
    w['ctx_new'] = rng.choice([1, 2, 3])
    enabled = {k: (rng.random() < 0.7) for k in DISTURB}
    if rng.random() < 0.15:   # fault-free configuration
        enabled = {k: False for k in DISTURB}
    for k in DISTURB:
        if not enabled[k]:
            w[k] = 0
    long_run = rng.random() < 0.02
    return {'n_slots': rng.randint(1, 5),
            'n_events': rng.randint(150, 300) if long_run else rng.randint(5, 40 if tier == 'quick' else 90),
            'p_medium': rng.choice([0.0, 0.05, 0.1, 0.3] if tier == 'quick' else [0.0, 0.1, 0.3, 0.6]),
            'p_wide': rng.choice([0.0, 0.1, 0.2, 0.5]),
            'max_n': rng.randint(3, 7 if tier == 'quick' else 9), 'max_m': rng.randint(3, 7 if tier == 'quick' else 9),
            'p_reuse_labels': rng.choice([0.3, 0.6, 0.9]),
            'simset': rng.random() < 0.5, 'weights': w, 'focus': focus,
            'fault_free': not any(enabled.values())}


def generate(rng, seed, run, tier, focus='C01', xmode=False):
    cfg = _config(rng, tier, focus)
    if xmode:
        cfg['simset'] = False
        cfg['xmode'] = True
    n_slots = cfg['n_slots']
    labels = []          # pool of [objs, props]
    shadow = [None] * n_slots   # (li, n, m, n_concepts)
    handles = {}         # h -> remaining estimate
    events = []
    kinds = [k for k in KINDS if cfg['weights'].get(k)]
    wts = [cfg['weights'][k] for k in kinds]

    def new_ctx(s):
        cands = [i for i, (o, p) in enumerate(labels)]
        if cands and rng.random() < cfg['p_reuse_labels']:
            li = rng.choice(cands)
            n, m = len(labels[li][0]), len(labels[li][1])
        else:
            n, m = gen_shape(rng, cfg)
            labels.append(gen_labels(rng, n, m))
            li = len(labels) - 1
        rows = gen_table(rng, n, m)
        nc = len(FCA(n, m, rows).concepts())
        for _ in range(3):
            if nc <= 160:
                break
            # keep lattices of the non-small shapes small enough for a full audit after every event
            rows = [r & rng.getrandbits(m) & rng.getrandbits(m) for r in rows]
            nc = len(FCA(n, m, rows).concepts())
        if nc > 160:
            rows = [1 << (i % m) for i in range(n)]
            nc = len(FCA(n, m, rows).concepts())
        shadow[s] = (li, n, m, nc)
        return ['ctx_new', s, li, rows]

    def idxs(k, lo=0, hi=None, dup=False):
        """A list of member indexes < k (the executor reduces them modulo the axis)."""
        hi = k if hi is None else min(hi, k)
        r = rng.random()
        if r < 0.08:
            out = []
        elif r < 0.16:
            out = list(range(k))
        elif r < 0.3:
            out = [rng.randrange(k)]
        else:
            cnt = rng.randint(max(lo, 1), max(1, hi))
            out = rng.sample(range(k), min(cnt, k))
        if lo and not out:
            out = [rng.randrange(k)]
        if dup and out and rng.random() < 0.3:
            out = out + [rng.choice(out)]
        if rng.random() < 0.5:
            rng.shuffle(out)
        if k > 64 and rng.random() < 0.5 and out:
            out.append(rng.randrange(60, k))   # members beyond the machine word
        return out

    events.append(new_ctx(rng.randrange(n_slots)))
    next_h = 0
    while len(events) < cfg['n_events']:
        kind = rng.choices(kinds, wts)[0]
        live = [i for i, t in enumerate(shadow) if t is not None]
        if kind == 'ctx_new' or not live:
            events.append(new_ctx(rng.randrange(n_slots)))
            continue
        s = rng.choice(live)
        li, n, m, nc = shadow[s]
        w = rng.randrange(4)
        if xmode and rng.random() < 0.06:
            # labels the context does not have: the error names a label (World X compares the messages)
            unknown = rng.sample(['nope', 'zz', 'o99', '?', 'Ø', 'p99', 'none', '0x'], rng.choice([1, 2, 2, 3, 4]))
            events.append(['q_unknown', s, rng.choice(['intension', 'extension', 'getitem', 'neighbors', 'lat_getitem', 'lat_call']),
                           unknown, idxs(n, lo=0)[:2]])
            continue
        if kind == 'ctx_drop':
            ev = [kind, s]
            shadow[s] = None
        elif kind in ('gc',):
            ev = [kind]
        elif kind in ('lat_force', 'lat_direct', 'ctx_copy', 'literal_rt'):
            ev = [kind, s]
        elif kind == 'orphan_new':
            ev = [kind, s, rng.choice(['copy', 'direct', 'fromdict', 'pickle'])]
        elif kind == 'q_lat_slice':
            a, b = sorted((rng.randrange(nc + 1), rng.randrange(nc + 1)))
            ev = [kind, s, w, rng.choice([None, a]), rng.choice([None, b])]
        elif kind == 'dict_rt':
            raw = int(rng.random() < 0.6)
            ev = [kind, s, raw, rng.randrange(1, 1000) if raw and rng.random() < 0.85 else 0]
        elif kind == 'q_int':
            ev = [kind, s, idxs(n, dup=True), int(rng.random() < 0.3)]
        elif kind == 'q_ext':
            ev = [kind, s, idxs(m, dup=True), int(rng.random() < 0.3)]
        elif kind in ('q_get', 'q_lat_get'):
            axis = rng.choice(['o', 'p'])
            ev = [kind, s, axis, idxs(n if axis == 'o' else m, lo=1, dup=True)]
            if kind == 'q_lat_get':
                ev.insert(2, w)
        elif kind == 'q_lat_idx':
            ev = [kind, s, w, rng.randrange(nc)]
        elif kind == 'q_lat_top':
            ev = [kind, s, w]
        elif kind == 'q_lat_call':
            ev = [kind, s, w, idxs(m, dup=True)]
        elif kind == 'q_neighbors':
            ev = [kind, s, idxs(n, dup=True), int(rng.random() < 0.3)]
        elif kind == 'q_links':
            ev = [kind, s, w, rng.randrange(nc)]
        elif kind == 'q_labels':
            ev = [kind, s, w]
        elif kind == 'h_open':
            if focus == 'C09':
                hk = rng.choice(['up', 'down', 'upU', 'downU', 'upU', 'downU', 'fcbo'])
            elif focus == 'C05':
                hk = rng.choice(['lindig', 'lindig', 'lindig', 'up', 'fcbo_dual'])
            else:
                hk = rng.choice(['up', 'down', 'upU', 'downU', 'lindig', 'fcbo', 'fcbo_dual'])
            if hk in ('up', 'down'):
                arg = rng.randrange(nc)
            elif hk in ('upU', 'downU'):
                cnt = rng.choice([0, 1, 2, 2, 3, 4, 6, 9, 14, 25, 40])   # also many seeds at once
                arg = [rng.randrange(nc) for _ in range(cnt)]
                if arg and rng.random() < 0.3:
                    arg.append(arg[0])
                if rng.random() < 0.12:
                    arg = rng.choice(['atoms', 'coatoms', 'all'])    # a whole antichain / every concept as seeds
            else:
                arg = 0
            ev = [kind, next_h, s, w, hk, arg, int(rng.random() < 0.4)]
            handles[next_h] = nc
            next_h += 1
        elif kind in ('h_step', 'h_close', 'h_abandon'):
            if not handles:
                continue
            h = rng.choice(sorted(handles))
            if kind == 'h_step':
                ev = [kind, h, rng.choice([1, 1, 1, 2, 3, 50])]
            else:
                ev = [kind, h]
                del handles[h]
        elif kind in ('pk_ctx', 'pk_lat'):
            ev = [kind, s, w, rng.choice([0, 1, 2, 3, 4, 5, 6])]
        elif kind == 'pk_foreign':
            same = [i for i in live if i != s and shadow[i][0] == li]
            mode = rng.choice(['fresh', 'collide', 'collide', 'same'])
            s2 = rng.choice(same) if same else rng.choice(live)
            ev = [kind, s, rng.choice(['ctx', 'lat']), w, mode, s2]
        elif kind == 'set_order':
            ev = [kind, rng.randrange(0, 8)]
        else:  # pragma: no cover
            raise AssertionError(kind)
        events.append(ev)
    return {'world': WORLD, 'seed': seed, 'run': run, 'labels': labels,
            'config': {k: v for k, v in cfg.items() if k != 'weights'}, 'events': events}


def simplify(plan):
    """Argument-level simplifications tried after ddmin (smaller tables etc.)."""
    cfg = plan['config']
    if cfg.get('simset'):
        yield dict(plan, config=dict(cfg, simset=False))
    for i, ev in enumerate(plan['events']):
        if ev[0] == 'ctx_new':
            rows = ev[3]
            for r in range(len(rows)):
                if rows[r]:
                    for cand in (0, rows[r] & (rows[r] - 1)):
                        if cand != rows[r]:
                            ev2 = [ev[0], ev[1], ev[2], rows[:r] + [cand] + rows[r + 1:]]
                            yield dict(plan, events=plan['events'][:i] + [ev2] + plan['events'][i + 1:])
                            break


# ------------------------------------------------------------------- executor

class Slot:

    def __init__(self, li, objs, props, fca):
        self.li, self.objs, self.props, self.fca = li, tuple(objs), tuple(props), fca
        self.oidx = {o: i for i, o in enumerate(self.objs)}
        self.pidx = {p: i for i, p in enumerate(self.props)}
        self.ctxs = []     # Context objects that must all behave like ``fca``
        self.lats = []     # [lattice, ledger, origin]

    def onames(self, mask):
        return tuple(self.objs[i] for i in bits(mask))

    def pnames(self, mask):
        return tuple(self.props[i] for i in bits(mask))

    def omask(self, names):
        return mask_of(self.oidx[x] for x in names)

    def pmask(self, names):
        return mask_of(self.pidx[x] for x in names)

    def add_ctx(self, ctx):
        if len(self.ctxs) >= 4:
            del self.ctxs[1]
        self.ctxs.append(ctx)

    def add_lat(self, lat, origin):
        for l in self.lats:
            if l[0] is lat:
                return l
        if len(self.lats) >= 4:
            del self.lats[1]
        self.lats.append([lat, {}, origin])
        return self.lats[-1]


def _lcg(seed):
    x = (seed * 6364136223846793005 + 1442695040888963407) & ((1 << 64) - 1)
    while True:
        x = (x * 6364136223846793005 + 1442695040888963407) & ((1 << 64) - 1)
        yield x >> 11


def sample_masks(k, budget, salt):
    """All subsets of a k-set when few, else edge cases plus a salt-determined sample."""
    if (1 << k) <= budget:
        return list(range(1 << k))
    full = (1 << k) - 1
    out = [0, full, 1, 1 << (k - 1), full & ~1, full >> 1]
    if k > 64:
        out += [1 << 63, 1 << 64, (1 << 64) - 1, ((1 << k) - 1) & ~((1 << 64) - 1), 1 | 1 << (k - 1)]
    g = _lcg(salt)
    while len(out) < budget:
        m = 0
        dens = next(g) % 4
        for _ in range((k + 52) // 53):
            w = next(g)
            if dens == 0:
                w &= next(g) & next(g)
            elif dens == 1:
                w &= next(g)
            elif dens == 3:
                w |= next(g)
            m = (m << 53) | w
        out.append(m & full)
    seen, res = set(), []
    for m in out:
        if m not in seen:
            seen.add(m)
            res.append(m)
    return res


class Live:
    """Executor state."""

    def __init__(self, plan, rec):
        import concepts
        self.C = concepts
        self.plan, self.rec = plan, rec
        self.cfg = plan['config']
        self.labels = plan['labels']
        self.slots = [None] * self.cfg['n_slots']
        self.handles = {}
        self.graveyard = []   # (slot objects of dropped/replaced contexts still referenced by handles)
        self.focus = self.cfg.get('focus')
        self.orphans = []     # concepts kept by the caller after it dropped their context and lattice
        self.argbuf = []      # one list object re-used (and edited in place) for every other argument
        self.argcount = 0

    def arg(self, names, iter_ok=True, set_ok=False):
        """The argument forms a caller may use for 'an iterable of labels', in rotation: a fresh list, one
        list object that the caller keeps and edits between calls (a correct library never retains it), a
        tuple, a str when every label is a single character (a str is an iterable of its characters), a
        one-shot iterator (``iter_ok``), a frozenset (``set_ok``: only where the signature says Iterable)."""
        self.argcount += 1
        form = self.argcount % 8
        if form in (1, 5):
            self.argbuf[:] = names
            return self.argbuf
        if form == 2:
            return tuple(names)
        if form == 3 and names and all(isinstance(x, str) and len(x) == 1 for x in names):
            self.rec.probe('str_argument')
            return ''.join(names)
        if form == 4 and iter_ok:
            return iter(list(names))
        if form == 6 and set_ok:
            self.rec.probe('frozenset_argument')
            return frozenset(names)
        return list(names)

    # ---------------------------------------------------------- helpers

    def slot(self, s):
        return self.slots[s] if isinstance(s, int) and 0 <= s < len(self.slots) else None

    def lattice_of(self, sl, w, forced_by):
        """The w-th lattice of the slot; forces the lazy one when there is none."""
        if not sl.lats:
            out = call(lambda: sl.ctxs[0].lattice)
            self.need(out.ok, 'lattice_constructs', lambda: f'context.lattice raised {out.text()}')
            sl.add_lat(out.value, 'lazy')
            self.rec.fault('lazy_lattice_forced_by:' + forced_by)
        return sl.lats[w % len(sl.lats)]

    def need(self, cond, what, detail):
        """A precondition every property relies on (objects can be built at all)."""
        if not cond:
            prop = sorted(self.rec.props)[0]
            self.rec.evals += 1
            raise core.Violation(prop, f'{prop}.{what}', detail() if callable(detail) else detail)

    def members(self, lat):
        out = call(list, lat)
        self.need(out.ok, 'lattice_iterates', lambda: f'list(lattice) raised {out.text()}')
        return out.value

    # ---------------------------------------------------------- audits

    def audit_all(self, touched, index):
        for s, sl in enumerate(self.slots):
            if sl is None:
                continue
            full = (s in touched)
            self.audit_slot(sl, s, index, full)
        if self.orphans:
            self.audit_orphans()
        st = []
        for sl in self.slots:
            st.append(None if sl is None else
                      (sl.li, tuple(sl.fca.rows), len(sl.ctxs), [l[2] for l in sl.lats]))
        hs = sorted((h, v['kind'], len(v['got']), v['done']) for h, v in self.handles.items())
        self.rec.state(canon([st, hs]))

    def keep_orphans(self, sl):
        """The caller keeps only the concepts of one lattice (no reference to the lattice or context)."""
        if not sl.lats or len(sl.fca.concepts()) > 64:
            return
        ms = self.members(sl.lats[-1][0])
        if len(ms) != len(sl.fca.concepts()):
            return
        shell = Slot(sl.li, sl.objs, sl.props, sl.fca)     # model + label maps only, no library objects
        self.orphans.append((shell, ms, sl.lats[-1][2]))
        del self.orphans[:-2]
        self.rec.probe('orphan_concepts_kept')

    def audit_orphans(self):
        rec = self.rec
        for shell, ms, origin in self.orphans:
            f = shell.fca
            cs = f.concepts()
            table = {}
            for c in ms:
                table.setdefault(shell.omask(c.extent), c)
            if set(table) != {e for e, _ in cs}:
                continue
            atoms = [table[cs[a][0]] for a in f.atoms()]
            for c in ms:
                e = shell.omask(c.extent)
                k = f.index_of(e)
                if rec.want('C10'):
                    wa = [a for a in atoms if shell.omask(a.extent) & e == shell.omask(a.extent)]
                    ga = call(lambda c=c: tuple(c.atoms))
                    rec.check('C10.atoms_below',
                              ga.ok and len(ga.value) == len(wa) and all(any(g is w for w in wa) for g in ga.value),
                              lambda: f'atoms of kept concept {c.extent!r} after its lattice was dropped: {ga.text()} (via {origin})')
                    lab = call(lambda c=c: (tuple(c.objects), tuple(c.properties)))
                    wo = tuple(shell.objs[o] for o in range(f.n) if f.object_concept(o) == k)
                    wp = tuple(shell.props[p] for p in range(f.m) if f.attribute_concept(p) == k)
                    rec.check('C10.object_label_owner', lab.ok and lab.value == (wo, wp),
                              lambda: f'labels of kept concept {c.extent!r} after its lattice was dropped: {lab.text()} model {(wo, wp)!r}')
                if rec.want('C05'):
                    for attr, cov in (('upper_neighbors', f.upper_covers(k)), ('lower_neighbors', f.lower_covers(k))):
                        got = call(lambda c=c, attr=attr: list(getattr(c, attr)))
                        want = [table[cs[j][0]] for j in cov]
                        rec.check(f'C05.{attr[:5]}_eq_covers',
                                  got.ok and len(got.value) == len(want) and all(any(g is w for w in want) for g in got.value),
                                  lambda: f'{attr} of kept concept {c.extent!r} after its lattice was dropped: {got.text()}')
            if rec.want('C09') and ms:
                c = ms[len(ms) // 2]
                for direction in ('up', 'down'):
                    want = self.traversal_want(shell, table, direction, [c])
                    got = call(lambda: list(c.upset() if direction == 'up' else c.downset()))
                    self.check_traversal(shell, direction, got.value if got.ok else None, want, final=True,
                                         what=f'{direction}set of kept concept {c.extent!r} after its lattice was dropped',
                                         err=got)
            if rec.want('C02') and ms:
                c = ms[-1]
                back = call(lambda: c.lattice[c.extent] if c.extent else c.lattice(c.intent))
                rec.check('C02.same_member', back.ok and back.value is c,
                          lambda: f'concept.lattice lookup of kept concept {c.extent!r}: {back.text()}')

    def audit_slot(self, sl, s, index, full):
        rec = self.rec
        budget = 64 if full else 10
        salt = index * 1000003 + s * 101
        if rec.want('C01'):
            for ci, ctx in enumerate(sl.ctxs):
                self.audit_c01(sl, ctx, budget, salt + ci)
        if rec.want('C02'):
            for ci, ctx in enumerate(sl.ctxs):
                self.audit_c02_ctx(sl, ctx, budget // 2 or 4, salt + ci)
            for lt in sl.lats:
                self.audit_c02_lat(sl, lt, budget // 2 or 4, salt)
        if rec.want('C05'):
            for ci, ctx in enumerate(sl.ctxs):
                self.audit_c05_neighbors(sl, ctx, (budget // 4) or 3, salt + ci)
            for lt in sl.lats:
                self.audit_c05_links(sl, lt)
        if rec.want('C09') and full:
            for lt in sl.lats:
                self.audit_c09_direct(sl, lt, salt)
        if rec.want('C10'):
            for lt in sl.lats:
                self.audit_c10(sl, lt)

    def audit_c01(self, sl, ctx, budget, salt):
        rec, f = self.rec, sl.fca
        tab = call(lambda: (ctx.objects, ctx.properties, ctx.bools))
        rec.check('C01.table_eq_model', tab.ok and tab.value == (sl.objs, sl.props, f.bools()),
                  lambda: f'objects/properties/bools = {tab.text()[:500]} but the context was built from {sl.objs, sl.props, f.rows}')
        if tab.ok:
            core.scramble(tab.value)   # caller-owned copy
            rec.fault('caller_mutates_result')
        for k, A in enumerate(sample_masks(f.n, budget, salt)):
            names = list(sl.onames(A))
            want = sl.pnames(f.intent(A))
            if k % 3 == 1 and names:
                names = names[::-1] + [names[0]]
            elif k % 3 == 2:
                names = tuple(names)
            if k % 7 == 6 and names and all(len(x) == 1 for x in names):
                got = call(ctx.intension, ''.join(names))     # a str is an iterable of one-character labels
            else:
                got = call(ctx.intension, iter(names)) if k % 5 == 4 else call(ctx.intension, names)
            rec.check('C01.intension_eq_model', got.ok and got.value == want,
                      lambda: f'intension({names!r}) = {got.text()} model {want!r} rows={f.rows} labels={sl.objs, sl.props}')
            if k % 2 == 0:
                raw = call(lambda: ctx.intension(names, raw=True).members())
                rec.check('C01.raw_eq_tuple', raw.ok and raw.value == want,
                          lambda: f'intension({names!r}, raw=True).members() = {raw.text()} model {want!r}')
            if f.n > 64:
                rec.probe('wide>64_queries')
        for k, B in enumerate(sample_masks(f.m, budget, salt + 7)):
            names = list(sl.pnames(B))
            want = sl.onames(f.extent(B))
            if k % 3 == 1 and names:
                names = names[::-1] + [names[-1]]
            elif k % 3 == 2:
                names = tuple(names)
            if k % 7 == 6 and names and all(len(x) == 1 for x in names):
                got = call(ctx.extension, ''.join(names))
            else:
                got = call(ctx.extension, iter(names)) if k % 5 == 4 else call(ctx.extension, names)
            rec.check('C01.extension_eq_model', got.ok and got.value == want,
                      lambda: f'extension({names!r}) = {got.text()} model {want!r} rows={f.rows} labels={sl.objs, sl.props}')
            if k % 2 == 0:
                raw = call(lambda: ctx.extension(names, raw=True).members())
                rec.check('C01.raw_eq_tuple', raw.ok and raw.value == want,
                          lambda: f'extension({names!r}, raw=True).members() = {raw.text()} model {want!r}')
            if f.m > 64:
                rec.probe('wide>64_queries')

    def _least_concept(self, f, A=None, B=None):
        cs = f.concepts()
        if A is not None:
            cands = [(e, i) for e, i in cs if e & A == A]
            least = [c for c in cands if all(c[0] & d[0] == c[0] for d in cands)]
        else:
            cands = [(e, i) for e, i in cs if i & B == B]
            least = [c for c in cands if all(c[1] & d[1] == c[1] for d in cands)]
        assert len(least) == 1
        return least[0]

    def audit_c02_ctx(self, sl, ctx, budget, salt):
        rec, f = self.rec, sl.fca
        for A in sample_masks(f.n, budget, salt + 13):
            if not A:
                continue
            names = list(sl.onames(A))
            e, i = self._least_concept(f, A=A)
            got = call(ctx.__getitem__, self.arg(names, set_ok=True))
            want = (sl.onames(e), sl.pnames(i))
            rec.check('C02.least_concept', got.ok and got.value == want,
                      lambda: f'context[{names!r}] = {got.text()} model {want!r} rows={f.rows}')
            if got.ok:
                ge, gi = sl.omask(got.value[0]), sl.pmask(got.value[1])
                rec.check('C02.is_formal_concept', f.intent(ge) == gi and f.extent(gi) == ge and ge & A == A,
                          lambda: f'context[{names!r}] = {got.text()} is not a concept containing the query')
                if e != A:
                    rec.probe('closure_added_members')
                # extensive / monotone / idempotent on the library's own answers
                again = call(ctx.__getitem__, list(got.value[0]))
                rec.check('C02.idempotent', again.ok and again.value == got.value,
                          lambda: f'closure not idempotent at {names!r}: {again.text()}')
                o = bits(f.all_objs & ~A)
                if o:
                    bigger = call(ctx.__getitem__, names + [sl.objs[o[0]]])
                    rec.check('C02.monotone', bigger.ok and set(got.value[0]) <= set(bigger.value[0]),
                              lambda: f'closure not monotone at {names!r}+{sl.objs[o[0]]!r}')
        for B in sample_masks(f.m, budget, salt + 17):
            if not B:
                continue
            names = list(sl.pnames(B))
            e, i = self._least_concept(f, B=B)
            got = call(ctx.__getitem__, self.arg(names, iter_ok=False, set_ok=True))
            want = (sl.onames(e), sl.pnames(i))
            rec.check('C02.least_concept', got.ok and got.value == want,
                      lambda: f'context[{names!r}] = {got.text()} model {want!r} rows={f.rows}')

    def by_extent(self, sl, lat):
        ms = self.members(lat)
        table = {}
        for c in ms:
            table.setdefault(sl.omask(c.extent), c)
        return ms, table

    def ledger_check(self, sl, lt, ext, obj, what):
        ledger = lt[1]
        first = ledger.setdefault(ext, obj)
        self.rec.check('C02.same_member', first is obj,
                       lambda: f'{what}: a different object than before was returned for extent {sl.onames(ext)!r}')

    def audit_c02_lat(self, sl, lt, budget, salt):
        rec, f = self.rec, sl.fca
        lat = lt[0]
        ms, table = self.by_extent(sl, lat)
        rec.check('C02.members_cover_model', len(ms) == len(f.concepts()) and set(table) == {e for e, _ in f.concepts()},
                  lambda: f'lattice members {sorted(table)} != model concepts {[e for e, _ in f.concepts()]} rows={f.rows}')
        for ext, obj in list(lt[1].items()):
            rec.check('C02.same_member', table.get(ext) is obj,
                      lambda: f'ledger entry for {sl.onames(ext)!r} is no longer the lattice member')
        for A in sample_masks(f.n, budget, salt + 23):
            if not A:
                continue
            names = list(sl.onames(A))
            e, i = self._least_concept(f, A=A)
            got = call(lat.__getitem__, self.arg(names))
            rec.check('C02.lattice_getitem_is_member',
                      got.ok and got.value is table.get(e) and got.value.intent == sl.pnames(i),
                      lambda: f'lattice[{names!r}] = {got.text()} expected member with extent {sl.onames(e)!r} rows={f.rows}')
            if got.ok:
                self.ledger_check(sl, lt, e, got.value, f'lattice[{names!r}]')
        for B in sample_masks(f.m, budget, salt + 29):
            names = list(sl.pnames(B))
            e = f.extent(B)
            i = f.intent(e)
            got = call(lat, iter(list(names)) if B % 5 == 4 else self.arg(names))
            rec.check('C02.lattice_call_is_member',
                      got.ok and got.value is table.get(e) and got.value.intent == sl.pnames(i),
                      lambda: f'lattice({names!r}) = {got.text()} expected member with extent {sl.onames(e)!r} rows={f.rows}')
            if got.ok:
                self.ledger_check(sl, lt, e, got.value, f'lattice({names!r})')
            if B:
                got = call(lat.__getitem__, self.arg(names, iter_ok=False))
                rec.check('C02.lattice_getitem_is_member', got.ok and got.value is table.get(e),
                          lambda: f'lattice[{names!r}] = {got.text()} expected member with extent {sl.onames(e)!r}')
        for k in range(len(ms)):
            got = call(lat.__getitem__, k)
            rec.check('C02.lattice_index', got.ok and got.value is ms[k],
                      lambda: f'lattice[{k}] is not the {k}-th member in iteration order')
        top = call(lat.__getitem__, ())
        rec.check('C02.lattice_top', top.ok and top.value is table.get(f.all_objs),
                  lambda: f'lattice[()] = {top.text()} is not the top concept')
        if f.concepts()[0][0]:
            rec.probe('bottom_extent_nonempty')
        if f.intent(f.all_objs):
            rec.probe('top_intent_nonempty')

    def audit_c05_neighbors(self, sl, ctx, budget, salt):
        rec, f = self.rec, sl.fca
        for k, A in enumerate(sample_masks(f.n, budget, salt + 31)):
            names = list(sl.onames(A))
            if k % 2:
                names = names[::-1]
            ci = f.index_of(f.close_objs(A))
            want = {(sl.onames(f.concepts()[u][0]), sl.pnames(f.concepts()[u][1]))
                    for u in f.upper_covers(ci)}
            # any iterable of labels is documented: lists, tuples, one-shot iterators
            got = call(ctx.neighbors, self.arg(names, set_ok=True))
            ok = got.ok and len(got.value) == len(set(got.value)) and set(got.value) == want
            rec.check('C05.neighbors_eq_upper_covers', ok,
                      lambda: f'neighbors({names!r}) = {got.text()} model {sorted(want)!r} rows={f.rows} labels={sl.objs}')
            if got.ok:
                core.scramble(got.value)
                rec.fault('caller_mutates_result')
            if k % 3 == 0:
                raw = call(lambda: [(e.members(), i.members()) for e, i in ctx.neighbors(names, raw=True)])
                rec.check('C05.neighbors_eq_upper_covers', raw.ok and set(raw.value) == want and len(raw.value) == len(want),
                          lambda: f'neighbors({names!r}, raw=True) = {raw.text()} model {sorted(want)!r}')
            if f.n > 64:
                rec.probe('wide>64_neighbors')

    def audit_c05_links(self, sl, lt):
        rec, f = self.rec, sl.fca
        ms, table = self.by_extent(sl, lt[0])
        cs = f.concepts()
        if set(table) != {e for e, _ in cs}:
            rec.check('C05.members_cover_model', False, lambda: f'lattice members differ from model rows={f.rows}')
            return
        for c in ms:
            k = f.index_of(sl.omask(c.extent))
            for attr, cov in (('upper_neighbors', f.upper_covers(k)), ('lower_neighbors', f.lower_covers(k))):
                got = list(getattr(c, attr))
                want = [table[cs[j][0]] for j in cov]
                ok = (len(got) == len(want)
                      and all(any(g is w for w in want) for g in got)
                      and all(any(g is w for g in got) for w in want))
                rec.check(f'C05.{attr[:5]}_eq_covers', ok,
                          lambda: f'{attr} of {c.extent!r}: {[g.extent for g in got]!r} model {[w.extent for w in want]!r} rows={f.rows} via {lt[2]}')
            for u in c.upper_neighbors:
                rec.check('C05.converse', any(x is c for x in u.lower_neighbors),
                          lambda: f'{c.extent!r} lists {u.extent!r} above but not conversely')
            for l in c.lower_neighbors:
                rec.check('C05.converse', any(x is c for x in l.upper_neighbors),
                          lambda: f'{c.extent!r} lists {l.extent!r} below but not conversely')

    def audit_c09_direct(self, sl, lt, salt):
        """Un-interleaved traversals of a few concepts (the handles do the interleaved ones)."""
        f = sl.fca
        ms, table = self.by_extent(sl, lt[0])
        if set(table) != {e for e, _ in f.concepts()}:
            self.rec.check('C09.members_cover_model', False, lambda: f'lattice members differ from model rows={f.rows}')
            return
        g = _lcg(salt)
        for _ in range(2):
            c = ms[next(g) % len(ms)]
            for direction in ('up', 'down'):
                want = self.traversal_want(sl, table, direction, [c])
                got = call(lambda: list(c.upset() if direction == 'up' else c.downset()))
                self.check_traversal(sl, direction, got.value if got.ok else None, want, final=True,
                                     what=f'{direction}set of {c.extent!r} via {lt[2]}', err=got)

    def traversal_want(self, sl, table, direction, seeds):
        f = sl.fca
        want = set()
        for c in seeds:
            k = f.index_of(sl.omask(c.extent))
            want.update(f.upset(k) if direction == 'up' else f.downset(k))
        return [table[f.concepts()[j][0]] for j in sorted(want)]

    def check_traversal(self, sl, direction, got, want, final, what, err=None, nlat=None):
        rec = self.rec
        if got is None:
            rec.check('C09.total_eq_filter', False, lambda: f'{what}: raised {err.text()}')
            return
        rank = (lambda c: c.index) if direction == 'up' else (lambda c: c.dindex)
        ranks = [rank(c) for c in got]
        rec.check('C09.prefix_rank_increasing', all(a < b for a, b in zip(ranks, ranks[1:])),
                  lambda: f'{what}: ranks {ranks} not strictly increasing')
        rec.check('C09.members_of_filter', all(any(g is w for w in want) for g in got),
                  lambda: f'{what}: yielded {[g.extent for g in got]!r}, allowed {[w.extent for w in want]!r}')
        if nlat is not None:
            rec.check('C09.bounded_termination', len(got) <= nlat, lambda: f'{what}: yielded more than len(lattice) items')
        if final:
            rec.check('C09.total_eq_filter',
                      len(got) == len(want) and all(any(g is w for g in got) for w in want),
                      lambda: f'{what}: yielded {[g.extent for g in got]!r} model {[w.extent for w in want]!r} rows={sl.fca.rows}')

    def audit_c10(self, sl, lt):
        rec, f = self.rec, sl.fca
        ms, table = self.by_extent(sl, lt[0])
        cs = f.concepts()
        if set(table) != {e for e, _ in cs} or len(ms) != len(cs):
            rec.check('C10.members_cover_model', False, lambda: f'lattice members differ from model rows={f.rows}')
            return
        want_o = {}
        for o in range(f.n):
            want_o.setdefault(cs[f.object_concept(o)][0], []).append(sl.objs[o])
        want_p = {}
        for p in range(f.m):
            want_p.setdefault(cs[f.attribute_concept(p)][0], []).append(sl.props[p])
        atoms = [table[cs[a][0]] for a in f.atoms()]
        for c in ms:
            e = sl.omask(c.extent)
            wo, wp = tuple(want_o.get(e, ())), tuple(want_p.get(e, ()))
            rec.check('C10.object_label_owner', tuple(c.objects) == wo,
                      lambda: f'objects label of {c.extent!r} is {c.objects!r} model {wo!r} rows={f.rows} via {lt[2]}')
            rec.check('C10.property_label_owner', tuple(c.properties) == wp,
                      lambda: f'properties label of {c.extent!r} is {c.properties!r} model {wp!r} rows={f.rows} via {lt[2]}')
            if len(wo) > 1 or len(wp) > 1:
                rec.probe('several_labels_one_concept')
            if (wo or wp) and e == f.all_objs:
                rec.probe('label_on_top')
            if (wo or wp) and e == cs[0][0]:
                rec.probe('label_on_bottom')
            k = f.index_of(e)
            lab_o = [o for j in f.downset(k) for o in table[cs[j][0]].objects]
            rec.check('C10.extent_eq_label_union', sorted(lab_o) == sorted(c.extent),
                      lambda: f'extent {c.extent!r} != union of object labels below {lab_o!r}')
            lab_p = [p for j in f.upset(k) for p in table[cs[j][0]].properties]
            rec.check('C10.intent_eq_label_union', sorted(lab_p) == sorted(c.intent),
                      lambda: f'intent {c.intent!r} != union of property labels above {lab_p!r}')
            wa = [a for a in atoms if sl.omask(a.extent) & e == sl.omask(a.extent)]
            ga = call(lambda: tuple(c.atoms))
            rec.check('C10.atoms_below',
                      ga.ok and len(ga.value) == len(wa) and all(any(g is w for w in wa) for g in ga.value)
                      and all(any(g is w for g in ga.value) for w in wa),
                      lambda: f'atoms of {c.extent!r}: {ga.text()} model {[a.extent for a in wa]!r} rows={f.rows} via {lt[2]}')
        if cs[0][0]:
            rec.probe('bottom_extent_nonempty')

    # ---------------------------------------------------------- events

    def run(self):
        rec = self.rec
        use_simset = bool(self.cfg.get('simset'))
        if use_simset:
            seams.install_simset()
            seams.SimSet.order_seed = 0
            seams.SimSet.iterations = 0
            seams.SimSet.permuted = 0
        seams.SimSet.permuted = 0
        try:
            for index, ev in enumerate(self.plan['events']):
                rec.begin(index, ev)
                touched = self.step(index, ev)
                self.audit_all(touched or (), index)
            self.finish()
        finally:
            if use_simset:
                rec.probe('simset_orders_consumed', seams.SimSet.iterations)
                rec.fault('set_order_permutation', seams.SimSet.permuted)
                seams.uninstall_simset()

    def step(self, index, ev):
        rec, C = self.rec, self.C
        kind = ev[0]
        rec.sched_step(kind, ev[1] if len(ev) > 1 and isinstance(ev[1], int) else '',
                       sorted((h, len(v['got'])) for h, v in self.handles.items() if not v['done']))
        if kind == 'gc':
            gc.collect()
            rec.fault('gc_collect')
            rec.log('ok')
            return ()
        if kind == 'set_order':
            if self.cfg.get('simset'):
                seams.SimSet.order_seed = ev[1]
            rec.log('ok')
            return ()
        if kind == 'ctx_new':
            _, s, li, rows = ev
            objs, props = self.labels[li]
            f = FCA(len(objs), len(props), rows)
            cells = f.bools() if index % 3 else [tuple(int(b) for b in r) for r in f.bools()]   # cells by truthiness
            if index % 6 == 3:      # ... also of counts (a cross table handed over as it is)
                yes, no = (2, 3, 1, 7, 12), (0, False, 0, 0, False)
                cells = [tuple((yes if b else no)[(i * 31 + j * 17 + index) % 5] for j, b in enumerate(r))
                         for i, r in enumerate(f.bools())]
                rec.probe('truthy_cells_not_bool')
            out = call(C.Context, objs, props, cells)
            self.need(out.ok, 'context_constructs', lambda: f'Context(...) raised {out.text()} for {objs, props, rows}')
            sl = Slot(li, objs, props, f)
            sl.ctxs.append(out.value)
            if self.slots[s] is not None:
                self.graveyard.append(self.slots[s])
            self.slots[s] = sl
            if any(o is not None and o is not sl and o.li == li and o.fca.rows != f.rows for o in self.slots):
                rec.probe('same_labels_different_table_alive')
            if max(f.n, f.m) > 64:
                rec.probe('wide>64_context')
            rec.log(f'{len(f.concepts())} concepts')
            return (s,)
        if kind in ('h_step', 'h_close', 'h_abandon'):
            return self.step_handle(kind, ev)
        if kind == 'h_open':
            return self.open_handle(ev)
        s = ev[1]
        sl = self.slot(s)
        if sl is None:
            rec.log('noop')
            return ()
        f = sl.fca
        ctx = sl.ctxs[0]
        if kind == 'ctx_drop':
            self.graveyard.append(sl)
            if not any(h['slot'] is sl for h in self.handles.values()):
                self.graveyard.pop()
            self.keep_orphans(sl)
            self.slots[s] = None
            del sl, ctx
            gc.collect()
            rec.fault('drop+gc')
            rec.log('ok')
            return ()
        if kind == 'lat_force':
            had = bool(sl.lats)
            lt = self.lattice_of(sl, 0, 'lat_force')
            out = call(lambda: ctx.lattice)
            self.need(out.ok, 'lattice_constructs', lambda: out.text())
            sl.add_lat(out.value, 'lazy')
            rec.log(f'{len(self.members(out.value))} had={had}')
            return (s,)
        if kind == 'orphan_new':
            # a lattice whose concepts are the only thing the caller keeps: it is never queried while alive
            if len(f.concepts()) > 64:
                rec.log('noop')
                return ()
            how = ev[2]
            if how == 'copy':
                out = call(lambda: list(ctx.copy().lattice))
            elif how == 'direct':
                out = call(lambda: list(C.lattices.Lattice(ctx)))
            elif how == 'fromdict':
                out = call(lambda: list(C.Context.fromdict(ctx.todict()).lattice))
            else:
                out = call(lambda: list(pickle.loads(pickle.dumps(ctx.copy().lattice))))
            self.need(out.ok, 'lattice_constructs', lambda: f'building a lattice ({how}) raised {out.text()}')
            shell = Slot(sl.li, sl.objs, sl.props, f)
            ms_ = out.value
            started = None
            if rec.want('C09') and len(ms_) == len(f.concepts()):
                c0 = ms_[index % len(ms_)]
                direction = 'up' if index % 2 else 'down'
                gen = call(c0.upset if direction == 'up' else c0.downset)
                first = call(next, gen.value) if gen.ok else gen
                if gen.ok and first.ok:
                    started = (c0, direction, gen.value, [first.value])
            self.orphans.append((shell, ms_, f'orphan({how})'))
            del self.orphans[:-2]
            gc.collect()
            if started:
                c0, direction, g, got = started
                rest = call(list, g)
                table = {}
                for c in ms_:
                    table.setdefault(shell.omask(c.extent), c)
                if set(table) == {e for e, _ in f.concepts()}:
                    want = self.traversal_want(shell, table, direction, [c0])
                    self.check_traversal(shell, direction, got + rest.value if rest.ok else None, want, final=True,
                                         what=f'{direction}set of {c0.extent!r} started before and finished after its lattice was dropped',
                                         err=rest)
            rec.fault('lattice_dropped_concepts_kept')
            rec.log(str(len(out.value)))
            return (s,)
        if kind == 'lat_direct':
            # the documented constructor: another lattice on the same Context instance; now and then a lattice
            # above some objects is built first (its result is not audited - nothing may leak from it)
            if index % 3 == 0:
                call(C.lattices.Lattice, sl.ctxs[0], [sl.objs[index % f.n]])
                rec.fault('sublattice_built_first')
            out = call(C.lattices.Lattice, sl.ctxs[0])
            self.need(out.ok, 'lattice_constructs', lambda: f'Lattice(context) raised {out.text()}')
            sl.add_lat(out.value, 'Lattice(ctx)')
            rec.fault('second_lattice_same_context')
            rec.log(f'{len(self.members(out.value))}')
            return (s,)
        if kind == 'q_lat_slice':
            lt = self.lattice_of(sl, ev[2], kind)
            ms = self.members(lt[0])
            out = call(lt[0].__getitem__, slice(ev[3], ev[4]))
            # slices are outside the statement: the result is only logged; what matters is that the caller
            # may sort/truncate whatever list it got without the lattice noticing
            rec.log(call(lambda: canon([c.extent for c in out.value])).text() if out.ok else out.text())
            if out.ok and isinstance(out.value, list):
                core.scramble(out.value)
                rec.fault('caller_mutates_result')
            return (s,)
        if kind == 'ctx_copy':
            out = call(ctx.copy)
            self.need(out.ok, 'context_constructs', lambda: f'copy() raised {out.text()}')
            sl.add_ctx(out.value)
            lat = call(lambda: out.value.lattice)
            self.need(lat.ok, 'lattice_constructs', lambda: lat.text())
            sl.add_lat(lat.value, 'copy')
            rec.fault('fresh_copy')
            rec.log('ok')
            return (s,)
        if kind == 'dict_rt':
            raw, perm = bool(ev[2]), ev[3]
            d = call(ctx.todict)
            self.need(d.ok, 'todict', lambda: d.text())
            dd = storeutil.permute_dict(d.value, perm) if (raw and perm) else d.value
            out = call(C.Context.fromdict, dd, raw=True) if raw else call(C.Context.fromdict, dd)
            self.need(out.ok, 'fromdict', lambda: f'fromdict raised {out.text()} rows={f.rows} perm={perm}')
            sl.add_ctx(out.value)
            sl.add_lat(out.value.lattice, f'fromdict(raw={raw},perm={perm})')
            core.scramble(d.value)
            core.scramble(dd)
            rec.fault('caller_mutates_result')
            rec.fault('stored_order_permutation(raw)' if raw and perm else 'dict_roundtrip')
            rec.log('ok')
            return (s,)
        if kind == 'literal_rt':
            had = bool(sl.lats) and any(l[0] is ctx.__dict__.get('lattice') for l in sl.lats)
            text = call(ctx.tostring, 'python-literal')
            self.need(text.ok, 'tostring', lambda: text.text())
            out = call(C.Context.fromstring, text.value, 'python-literal')
            self.need(out.ok, 'fromstring', lambda: f'fromstring(python-literal) raised {out.text()}')
            sl.add_ctx(out.value)
            if had:
                sl.add_lat(out.value.lattice, 'literal')
                rec.probe('lazy_lattice_present_at_dump')
            rec.fault('literal_roundtrip')
            rec.log(f'ok had={had}')
            return (s,)
        if kind == 'q_int':
            names = [sl.objs[i % f.n] for i in ev[2]]
            A = sl.omask(names)
            out = call(lambda: ctx.intension(names, raw=True).members() if ev[3] else ctx.intension(names))
            want = sl.pnames(f.intent(A))
            rec.check('C01.intension_eq_model', out.ok and out.value == want,
                      lambda: f'intension({names!r}, raw={ev[3]}) = {out.text()} model {want!r} rows={f.rows}')
            rec.log(out.text())
            return (s,)
        if kind == 'q_ext':
            names = [sl.props[i % f.m] for i in ev[2]]
            B = sl.pmask(names)
            out = call(lambda: ctx.extension(names, raw=True).members() if ev[3] else ctx.extension(names))
            want = sl.onames(f.extent(B))
            rec.check('C01.extension_eq_model', out.ok and out.value == want,
                      lambda: f'extension({names!r}, raw={ev[3]}) = {out.text()} model {want!r} rows={f.rows}')
            rec.log(out.text())
            return (s,)
        if kind == 'q_unknown':
            _, _, how, unknown, known_idx = ev
            knownn = [sl.objs[i % f.n] for i in known_idx] if how in ('intension', 'getitem', 'neighbors', 'lat_getitem') else []
            names = knownn[:1] + list(unknown) + knownn[1:]
            if how in ('lat_getitem', 'lat_call'):
                lat = self.lattice_of(sl, 0, kind)[0]
                fn = lat.__getitem__ if how == 'lat_getitem' else lat
            else:
                fn = {'intension': ctx.intension, 'extension': ctx.extension, 'getitem': ctx.__getitem__,
                      'neighbors': ctx.neighbors}[how]
            out = call(fn, tuple(names))
            text = out.text(with_message=True)
            # the labels a KeyError may legitimately name: those unknown on the axis that is consulted last
            if how in ('intension', 'neighbors'):
                cands = [x for x in names if x not in sl.objs]
            elif how in ('extension', 'lat_call'):
                cands = [x for x in names if x not in sl.props]
            else:    # objects are tried first, then properties
                cands = [x for x in names if x not in sl.props] if any(x not in sl.objs for x in names) else []
            cands = list(dict.fromkeys(cands))
            if (len(cands) >= 2 and not out.ok and isinstance(out.exc, KeyError) and len(out.exc.args) == 1
                    and out.exc.args[0] in cands):
                rec.log_side('!KeyError naming one of the unknown labels given', repr(out.exc.args[0]))
                rec.log('see side channel')
            else:
                rec.log(text)
            return (s,)
        if kind == 'q_get':
            names, e, i = self._key(sl, ev[2], ev[3])
            out = call(ctx.__getitem__, self.arg(names, iter_ok=ev[2] == 'o', set_ok=True))
            want = (sl.onames(e), sl.pnames(i))
            rec.check('C02.least_concept', out.ok and out.value == want,
                      lambda: f'context[{names!r}] = {out.text()} model {want!r} rows={f.rows}')
            rec.log(out.text())
            return (s,)
        if kind in ('q_lat_get', 'q_lat_call', 'q_lat_idx', 'q_lat_top', 'q_links', 'q_labels'):
            lt = self.lattice_of(sl, ev[2], kind)
            lat = lt[0]
            # the library call comes first: on a fresh lattice it is the very first query
            if kind == 'q_lat_get':
                names, e, i = self._key(sl, ev[3], ev[4])
                out = call(lat.__getitem__, self.arg(names, iter_ok=ev[3] == 'o'))
            elif kind == 'q_lat_call':
                names = [sl.props[j % f.m] for j in ev[3]]
                e = f.extent(sl.pmask(names))
                out = call(lat, self.arg(names))
            elif kind == 'q_lat_idx':
                k = ev[3] % len(f.concepts())
                out = call(lat.__getitem__, k)
            elif kind == 'q_lat_top':
                out = call(lat.__getitem__, ())
            ms, table = self.by_extent(sl, lat)
            if kind == 'q_lat_get':
                rec.check('C02.lattice_getitem_is_member', out.ok and out.value is table.get(e),
                          lambda: f'lattice[{names!r}] = {out.text()} expected extent {sl.onames(e)!r} rows={f.rows} via {lt[2]}')
                if out.ok:
                    self.ledger_check(sl, lt, e, out.value, f'lattice[{names!r}]')
            elif kind == 'q_lat_call':
                rec.check('C02.lattice_call_is_member', out.ok and out.value is table.get(e),
                          lambda: f'lattice({names!r}) = {out.text()} expected extent {sl.onames(e)!r} rows={f.rows} via {lt[2]}')
                if out.ok:
                    self.ledger_check(sl, lt, e, out.value, f'lattice({names!r})')
            elif kind == 'q_lat_idx':
                rec.check('C02.lattice_index', out.ok and k < len(ms) and out.value is ms[k],
                          lambda: f'lattice[{k}] = {out.text()}')
            elif kind == 'q_lat_top':
                rec.check('C02.lattice_top', out.ok and out.value is table.get(f.all_objs),
                          lambda: f'lattice[()] = {out.text()}')
            elif kind == 'q_links':
                c = ms[ev[3] % len(ms)]
                out = call(lambda: ([u.extent for u in c.upper_neighbors], [l.extent for l in c.lower_neighbors]))
            else:
                out = call(lambda: [(c.extent, c.objects, c.properties, [a.extent for a in c.atoms]) for c in ms])
            rec.log(out.text())
            return (s,)
        if kind == 'q_neighbors':
            names = [sl.objs[i % f.n] for i in ev[2]]
            out = call(lambda: ([(e.members(), i.members()) for e, i in ctx.neighbors(names, raw=True)]
                                if ev[3] else ctx.neighbors(names)))
            ci = f.index_of(f.close_objs(sl.omask(names)))
            want = {(sl.onames(f.concepts()[u][0]), sl.pnames(f.concepts()[u][1])) for u in f.upper_covers(ci)}
            rec.check('C05.neighbors_eq_upper_covers',
                      out.ok and len(out.value) == len(want) and set(out.value) == want,
                      lambda: f'neighbors({names!r}) = {out.text()} model {sorted(want)!r} rows={f.rows}')
            rec.log(out.text())
            if out.ok:
                core.scramble(out.value)
                rec.fault('caller_mutates_result')
            return (s,)
        if kind in ('pk_ctx', 'pk_lat', 'pk_foreign'):
            return self.step_pickle(kind, ev, s, sl)
        raise core.HarnessError(f'unknown event {ev!r}')

    def _key(self, sl, axis, idx):
        f = sl.fca
        if axis == 'o':
            names = [sl.objs[i % f.n] for i in idx]
            e = f.close_objs(sl.omask(names))
            return names, e, f.intent(e)
        names = [sl.props[j % f.m] for j in idx]
        e = f.extent(sl.pmask(names))
        return names, e, f.intent(e)

    @staticmethod
    def pickle_roundtrip(obj, proto):
        """proto 0-5 in-band; 6 = protocol 5 with out-of-band buffers (buffer_callback / buffers=)."""
        if proto == 6:
            buffers = []
            data = pickle.dumps(obj, 5, buffer_callback=buffers.append)
            return pickle.loads(data, buffers=buffers)
        return pickle.loads(pickle.dumps(obj, proto))

    def step_pickle(self, kind, ev, s, sl):
        rec = self.rec
        touched = [s]
        if kind == 'pk_ctx':
            src = sl.ctxs[ev[2] % len(sl.ctxs)]
            out = call(self.pickle_roundtrip, src, ev[3])
            self.need(out.ok, 'context_pickles', lambda: f'pickle round trip of a context raised {out.text()}')
            sl.add_ctx(out.value)
            rec.fault('same_process_unpickle')
        elif kind == 'pk_lat':
            lt = self.lattice_of(sl, ev[2], kind)
            out = call(self.pickle_roundtrip, lt[0], ev[3])
            self.need(out.ok, 'lattice_pickles', lambda: f'pickle round trip of a lattice raised {out.text()}')
            sl.add_lat(out.value, 'unpickle')
            rec.fault('same_process_unpickle')
        else:
            _, _, what, w, mode, s2 = ev
            other = self.slot(s2)
            if what == 'lat':
                lt = self.lattice_of(sl, w, kind)
                data = call(pickle.dumps, lt[0], 4)
            else:
                data = call(pickle.dumps, sl.ctxs[w % len(sl.ctxs)], 4)
            self.need(data.ok, 'pickles', lambda: f'pickle.dumps raised {data.text()}')
            collide = (mode == 'collide' and other is not None and other is not sl
                       and other.objs == sl.objs and other.props == sl.props)
            if mode == 'same':
                idmap = lambda ids: ids  # noqa: E731
                rec.fault('same_process_unpickle')
            elif collide and hasattr(getattr(other.ctxs[0], '_Properties', None), '_id'):
                tgt = other.ctxs[0]
                ids = (tgt._Properties._id, tgt._Objects._id)
                idmap = lambda _ids: ids  # noqa: E731
                rec.fault('foreign_unpickle_collide')
                if other.fca.rows != sl.fca.rows:
                    rec.probe('collision_with_different_table')
                touched.append(s2)
            else:
                idmap = seams.fresh_ids
                rec.fault('foreign_unpickle_fresh')
            out = call(seams.sim_loads, data.value, idmap)
            self.need(out.ok, 'unpickles', lambda: f'loading a {what} pickle ({mode}) raised {out.text()}')
            obj = out.value[0]
            if what == 'lat':
                sl.add_lat(obj, f'foreign({mode})')
            else:
                sl.add_ctx(obj)
        rec.log('ok')
        return tuple(touched)

    # ---------------------------------------------------------- handles

    def open_handle(self, ev):
        rec = self.rec
        _, h, s, w, hk, arg, as_iter = ev
        sl = self.slot(s)
        if sl is None or h in self.handles:
            rec.log('noop')
            return ()
        f = sl.fca
        H = {'kind': hk, 'slot': sl, 'got': [], 'done': False, 'lens': []}
        if hk in ('up', 'down', 'upU', 'downU'):
            lt = self.lattice_of(sl, w, 'h_open')
            n = len(f.concepts())

            def seed(k):
                # by index, without iterating the lattice first: the traversal may be its first use
                got = call(lt[0].__getitem__, k % n)
                self.need(got.ok, 'lattice_index', lambda: f'lattice[{k % n}] raised {got.text()}')
                return got.value
            H['nlat'] = n
            H['dir'] = 'up' if hk in ('up', 'upU') else 'down'
            if hk in ('up', 'down'):
                seeds = [seed(arg)]
                out = call(seeds[0].upset if hk == 'up' else seeds[0].downset)
            else:
                if isinstance(arg, str):
                    got = call(lambda: {'atoms': lambda: list(lt[0].atoms),
                                        'coatoms': lambda: list(lt[0].supremum.lower_neighbors),
                                        'all': lambda: list(lt[0])}[arg]())
                    self.need(got.ok, 'lattice_iterates', lambda: f'{arg} of the lattice raised {got.text()}')
                    seeds = got.value
                else:
                    seeds = [seed(a) for a in arg]
                src = iter(list(seeds)) if as_iter else list(seeds)
                out = call(lt[0].upset_union if hk == 'upU' else lt[0].downset_union, src)
                if not as_iter:
                    core.scramble(src)   # the caller re-uses its seed list before it starts iterating
                    rec.fault('caller_reuses_argument')
                if len(seeds) != len({id(x) for x in seeds}):
                    rec.probe('seed_repeats')
                if any(a is not b and (sl.omask(a.extent) & sl.omask(b.extent)) == sl.omask(a.extent)
                       for a in seeds for b in seeds):
                    rec.probe('seed_set_had_comparable_members')
                if not seeds:
                    rec.probe('empty_seed_collection')
            H['seeds'], H['lt'], H['want'] = seeds, lt, None
            H['what'] = f'{hk}({[c.extent for c in seeds]!r}) via {lt[2]}'
            if not out.ok:
                rec.check('C09.total_eq_filter', False, lambda: f'{H["what"]} raised {out.text()}')
                rec.log(out.text())
                return ()
            H['gen'] = iter(out.value)
        elif hk == 'lindig':
            src = sl.ctxs[w % len(sl.ctxs)]
            if not hasattr(src, '_lattice'):   # the anchored seam is gone: nothing to schedule
                rec.log('noop')
                return ()
            out = call(src._lattice)
            self.need(out.ok, 'lindig_generator', lambda: out.text())
            H['gen'] = out.value
            H['records'] = []
        else:
            fn = self.C.algorithms.fast_generate_from if hk == 'fcbo' else self.C.algorithms.fcbo_dual
            out = call(fn, sl.ctxs[w % len(sl.ctxs)])
            self.need(out.ok, 'fcbo_generator', lambda: out.text())
            H['gen'] = out.value
        self.handles[h] = H
        rec.probe('handles_opened')
        if sum(1 for v in self.handles.values() if not v['done']) > 1:
            rec.probe('several_handles_open')
        rec.log('ok')
        return (s,)

    def step_handle(self, kind, ev):
        rec = self.rec
        H = self.handles.get(ev[1])
        if H is None:
            rec.log('noop')
            return ()
        if kind == 'h_close':
            if not H['done']:
                out = call(H['gen'].close) if hasattr(H['gen'], 'close') else None
                H['done'] = True
                rec.fault('generator_close')
                if H['got']:
                    rec.probe('generator_closed_midway')
            del self.handles[ev[1]]
            rec.log('ok')
            return ()
        if kind == 'h_abandon':
            H['gen'] = None
            del self.handles[ev[1]]
            gc.collect()
            rec.fault('generator_abandon')
            rec.log('ok')
            return ()
        if H['done']:
            rec.log('done')
            return ()
        for _ in range(ev[2]):
            out = call(next, H['gen'])
            if not out.ok:
                if isinstance(out.exc, StopIteration):
                    H['done'] = True
                    self.handle_progress(H, final=True)
                else:
                    prop = 'C05' if H['kind'] == 'lindig' else 'C09'
                    rec.check(f'{prop}.generator_raises', H['kind'].startswith('fcbo'),
                              lambda: f'{H.get("what", H["kind"])}: next() raised {out.text()}')
                    H['done'] = True
                break
            H['got'].append(out.value)
            self.handle_progress(H, final=False)
        if H['kind'] in ('up', 'down', 'upU', 'downU'):
            rec.log(f'{len(H["got"])} done={H["done"]} ' + canon([c.extent for c in H['got'][-ev[2]:]]))
        elif H['kind'] == 'lindig':
            rec.log(f'{len(H["got"])} done={H["done"]} '
                    + canon([(int(r[0]), int(r[1]), [int(u) for u in r[2]], [int(l) for l in r[3]]) for r in H['got'][-1:]]))
        else:
            rec.log(f'{len(H["got"])} done={H["done"]} ' + canon([(int(e), int(i)) for e, i in H['got'][-1:]]))
        return ()

    def handle_progress(self, H, final):
        rec = self.rec
        sl = H['slot']
        f = sl.fca
        if H['kind'] in ('up', 'down', 'upU', 'downU'):
            if H['want'] is None:
                ms, table = self.by_extent(sl, H['lt'][0])
                if set(table) != {e for e, _ in f.concepts()}:
                    rec.check('C09.members_cover_model', False, lambda: f'lattice members differ from model rows={f.rows}')
                    H['done'] = True
                    return
                H['want'] = self.traversal_want(sl, table, H['dir'], H['seeds'])
            self.check_traversal(sl, H['dir'], H['got'], H['want'], final, H['what'], nlat=H['nlat'])
        elif H['kind'] == 'lindig':
            cs = f.concepts()
            ext_of = [e for e, _ in cs]
            got = H['got']
            seen = [int(r[0]) for r in got]
            rec.check('C05.lindig_no_repeat', len(seen) == len(set(seen)),
                      lambda: f'Lindig generator yielded an extent twice: {seen} rows={f.rows}')
            rec.check('C05.lindig_yields_concepts', all(e in set(ext_of) for e in seen),
                      lambda: f'Lindig generator yielded a non-concept {seen} rows={f.rows}')
            if not final:
                r = got[-1]
                if int(r[0]) in set(ext_of):
                    k = f.index_of(int(r[0]))
                    up = [int(u) for u in r[2]]
                    want = sorted(ext_of[j] for j in f.upper_covers(k))
                    rec.check('C05.lindig_upper_final_at_yield', sorted(up) == want and len(up) == len(set(up)),
                              lambda: f'record of {sl.onames(int(r[0]))!r}: upper {up} model {want} rows={f.rows}')
            lens = []
            for r in got:
                if int(r[0]) not in set(ext_of):
                    continue
                k = f.index_of(int(r[0]))
                lo = [int(l) for l in r[3]]
                want = {ext_of[j] for j in f.lower_covers(k)}
                rec.check('C05.lindig_lower_prefix', len(lo) == len(set(lo)) and set(lo) <= want,
                          lambda: f'record of {sl.onames(int(r[0]))!r}: lower {lo} not a duplicate-free subset of {sorted(want)} rows={f.rows}')
                lens.append(len(lo))
                if final:
                    rec.check('C05.lindig_lower_complete_at_exhaustion', set(lo) == want,
                              lambda: f'record of {sl.onames(int(r[0]))!r}: lower {lo} model {sorted(want)} after exhaustion rows={f.rows}')
                elif set(lo) != want:
                    rec.probe('lindig_lower_incomplete_seen_early')
            rec.check('C05.lindig_lower_prefix', all(a <= b for a, b in zip(H['lens'], lens)),
                      lambda: 'a lower list shrank between two yields')
            H['lens'] = lens
            if final:
                rec.check('C05.lindig_complete', len(got) == len(cs),
                          lambda: f'Lindig generator yielded {len(got)} records, model has {len(cs)} concepts rows={f.rows}')

    def finish(self):
        """Bounded liveness: once cancellations stop every open traversal drains."""
        rec = self.rec
        rec.begin(len(self.plan['events']), ['finish'])
        for h, H in sorted(self.handles.items()):
            if H['done'] or H['kind'].startswith('fcbo'):
                continue
            bound = (H.get('nlat') or len(H['slot'].fca.concepts())) + 1
            for _ in range(bound):
                out = call(next, H['gen'])
                if not out.ok:
                    H['done'] = True
                    if isinstance(out.exc, StopIteration):
                        self.handle_progress(H, final=True)
                    else:
                        prop = 'C05' if H['kind'] == 'lindig' else 'C09'
                        rec.check(f'{prop}.generator_raises', False, lambda: f'next() raised {out.text()}')
                    break
                H['got'].append(out.value)
                self.handle_progress(H, final=False)
            prop = 'C05' if H['kind'] == 'lindig' else 'C09'
            rec.check(f'{prop}.bounded_termination', H['done'],
                      lambda: f'{H.get("what", H["kind"])} did not finish within {bound} further steps')
        rec.log('drained')
        if self.cfg.get('xmode'):
            from . import battery
            for s, sl in enumerate(self.slots):
                if sl is None:
                    continue
                for k, ctx in enumerate(sl.ctxs):
                    for line in battery.full(ctx, limit=30, heavy=len(sl.fca.concepts()) <= 64):
                        rec.log(f's{s}c{k} {line}')
                for k, lt in enumerate(sl.lats):
                    for line in battery.lattice_lines(lt[0], limit=30, heavy=len(sl.fca.concepts()) <= 64):
                        rec.log(f's{s}l{k} {line}')


def run_one(arg):
    rec = core.Recorder(arg['plan'], arg['props'], arg.get('known'))
    try:
        Live(arg['plan'], rec).run()
        return rec.result()
    except core.Violation as v:
        return rec.result(v)
    except core.INTERPRETATION_ERRORS as e:
        if not rec.props:
            raise
        return rec.result(core.uninterpretable(rec, e))
    finally:
        seams.uninstall_simset()
