"""World S — storage and peers (C11, C12).

The "cluster" is the run's own process (node 0), K peer interpreter processes
with their own PYTHONHASHSEED (nodes 1..K, `sim/peer.py`), and a disk: a
run-private directory with a small path namespace so that paths are reused and
overwritten.  The scheduler sends one command at a time, so the multi-process
system is fully sequentialised and deterministic.  ``restart`` kills a peer and
starts a new interpreter with another hash seed: only the disk survives.
"""

import ast
import json
import os
import shutil
import tempfile

from . import core
from .core import canon
from .refmodel_fca import FCA, bits
from . import refcodec
from . import storeutil
from .node import Node, _jsonable

WORLD = 'S'

PLAIN_O = ['alpha', 'b', 'Cc', 'd4', 'e_e', 'f', 'gg', 'h', 'i', 'j', 'k', 'l']
PLAIN_P = ['p', 'q1', 'RR', 's', 't_t', 'u', 'v', 'w', 'x', 'y', 'z', 'm']
PUNCT = ['a.b', 'x-y', '+1', '-sg', 'X', '.', '0', '1', 'a b', 'q?', '(r)', '[s]', '{t}', "it's", 'u,v',
         'a=b', '%', '&&', '*', '/', '\\', '~', '^', '$', '@', '!', ';', ':', '<', '>', '`', '"q"', 'XX', '..',
         'B', '2', 'a  b', 'a\tb', 'None', 'True', 'none', 'NONE', '1.5', '-0', '1e3', 'nan', 'a' * 90, 'A', 'a',
         'if', 'x' * 33 + ' ' + 'y' * 40]
TABLEBAD = ['a|b', '#c', 'd#', '|', '||', 'e|', '!!x']
NONASCII = ['ä', 'Öl', 'é', 'ß', 'ñu', 'Ωmega', '日本', 'đ', 'ça', 'þ', 'ÿ', '€', 'ǅ', 'ı',
            'e\u0301', '\u2126', '\u212b', 'A\u030a', 'ﬁ', '\u00e9', 'İ', 'ǆ']
CSVONLY = [' lead', 'trail ', 'a\nb', 'c\r\nd', 'e\rf', ' ', 'x,"y"', '"', ',', '\n', 'a,b\n"c"', "'", '""']

TEXT_FORMATS = ['table', 'cxt', 'csv', 'python-literal']
SUFFIX = {'table': '.txt', 'cxt': '.cxt', 'csv': '.csv', 'python-literal': '.py'}


def representable(frmat, names):
    """The label sets the property statement delimits per format."""
    for n in names:
        if not n:
            return False
        if frmat in ('table', 'cxt', 'wiki-table'):
            if n != n.strip() or any(ch in n for ch in '\n\r\x0b\x0c\x1c\x1d\x1e\x85  '):
                return False
        if frmat == 'table' and ('|' in n or '#' in n):
            return False
        if frmat == 'wiki-table' and ('!' in n or '|' in n):
            return False
    return True


# ------------------------------------------------------------------ generator

def _gen_labels(rng, n, m, cls):
    pools = {'plain': (PLAIN_O, PLAIN_P)}
    if cls == 'plain':
        po, pp = PLAIN_O, PLAIN_P
    else:
        mix = {'punct': PUNCT, 'tablebad': PUNCT + TABLEBAD, 'nonascii': NONASCII + PUNCT[:6],
               'csvonly': CSVONLY + PUNCT[:8] + NONASCII[:4]}[cls]
        po = pp = mix
    del pools
    if n + m > len(set(po + pp)) or cls == 'plain' and (n > len(po) or m > len(pp)):
        return [[f'o{i}' for i in range(n)], [f'p{j}' for j in range(m)]]
    if cls == 'plain':
        return [rng.sample(po, n), rng.sample(pp, m)]
    names = rng.sample(sorted(set(po + pp)), n + m)
    return [names[:n], names[n:]]


def _big_table(rng, tier):
    kind = rng.choice(['contranominal', 'random', 'nominal_plus'])
    if kind == 'contranominal':
        n = rng.choice([9, 9, 10] if tier == 'quick' else [9, 10, 11, 12])
        return n, n, [((1 << n) - 1) & ~(1 << i) for i in range(n)]
    if kind == 'random':
        if tier == 'quick':
            n, m = rng.choice([(rng.randint(18, 24), rng.randint(12, 15)), (rng.randint(24, 30), rng.randint(15, 17))])
        else:
            n, m = rng.randint(24, 34), rng.randint(14, 18)
        dens = rng.choice([0.5, 0.55, 0.6])
        rows = [sum((rng.random() < dens) << j for j in range(m)) for _ in range(n)]
        cap = 2000 if tier == 'quick' else 6000      # "a few thousand concepts", and a run stays within its time limit
        while len(FCA(n, m, rows).concepts()) > cap:
            rows = [r & ~(1 << rng.randrange(m)) for r in rows[:-1]]
            n -= 1
        return n, m, rows
    n = rng.choice([40, 80, 120] if tier == 'quick' else [80, 120, 160])     # chain: deep, thin lattice (Lindig is cubic here)
    return n, n, [(1 << (i + 1)) - 1 for i in range(n)]


def generate(rng, seed, run, tier, focus='C11', xmode=False):
    from .world_live import gen_table
    n_peers = rng.choice([0, 1, 1, 2]) if focus == 'C11' else rng.choice([0, 0, 1, 1, 2])
    if xmode:
        n_peers = 0
    twin = n_peers == 2 and rng.random() < 0.5
    big = focus == 'C11' and rng.random() < (0.05 if tier == 'quick' else 0.1)
    cfg = {'focus': focus, 'n_nodes': n_peers + 1,
           'node_seeds': [rng.randrange(1, 2 ** 31) for _ in range(n_peers)],
           'aslr_off': twin or rng.random() < 0.3, 'twin': twin, 'big': big,
           'n_events': rng.randint(4, 24 if tier == 'quick' else 50),
           'label_cls': rng.choice(['plain', 'plain', 'punct', 'tablebad', 'nonascii', 'csvonly'])
           if focus == 'C12' else rng.choice(['plain', 'plain', 'punct', 'nonascii', 'csvonly']),
           'peer_env': rng.choice([{}, {}, {'LC_ALL': 'C'}, {'PYTHONUTF8': '1'}, {'LC_ALL': 'C', 'PYTHONUTF8': '0'}]),
           'xmode': bool(xmode)}
    if twin:
        cfg['node_seeds'] = [cfg['node_seeds'][0]] * 2
    labels, events = [], []
    pending_big = []
    nodes = list(range(cfg['n_nodes']))
    slots = {}       # (node, slot) -> dict(li, n, m, nc, kind)
    files = {}       # target -> dict(form, li, ...)
    bases = ['a', 'b.c', 'd e'][:rng.randint(1, 3)]
    slot_names = ['s0', 's1', 's2', 's3']

    def new_labels(n, m):
        labels.append(_gen_labels(rng, n, m, cfg['label_cls'] if max(n, m) <= 12 else 'plain'))
        return len(labels) - 1

    def new_ctx(node):
        if big and not any(v.get('big') for v in slots.values()) and rng.random() < 0.7:
            n, m, rows = _big_table(rng, tier)
            li = new_labels(n, m)
            isbig = True
        else:
            reuse = [i for i, (o, p) in enumerate(labels) if len(o) <= 12]
            if reuse and rng.random() < 0.6:
                li = rng.choice(reuse)
                n, m = len(labels[li][0]), len(labels[li][1])
            else:
                n, m = rng.randint(1, 7), rng.randint(1, 7)
                if focus == 'C12' and rng.random() < 0.12:
                    n, m = rng.randint(8, 14), rng.randint(10, 14)   # two-digit indexes, wider tables
                li = new_labels(n, m)
            rows = gen_table(rng, n, m)
            isbig = False
        s = rng.choice(slot_names)
        slots[(node, s)] = {'li': li, 'n': n, 'm': m, 'kind': 'ctx', 'big': isbig}
        if isbig:
            slots[(node, s)]['nc'] = len(FCA(n, m, rows).concepts())
            pending_big.append((node, s))
        return ['ctx_new', node, s, li, rows]

    def target(form, natural):
        base = rng.choice(bases)
        if rng.random() < 0.2:
            base = 'v1.2.d/' + base
        if rng.random() < 0.8:
            suf = natural
            if rng.random() < 0.3:
                suf = rng.choice([suf.upper(), suf.title(), suf[:2] + suf[2:].upper()])
            if rng.random() < 0.12:
                suf = rng.choice(['.csv', '.cxt', '.txt', '.py', '.json']) + suf    # only the last extension counts
        elif rng.random() < 0.5:
            suf = '.x'
        else:
            # misleading: explicit frmat must win; names that look compressed or backed up are just names
            suf = rng.choice(['.txt', '.cxt', '.csv', '.py', '.dat', '.json', '.gz', natural + '.gz', '.bz2', natural + '~', '.bak'])
        return base + suf

    def live(node=None, kind=None):
        return [(nd, s) for (nd, s), v in slots.items()
                if (node is None or nd == node) and (kind is None or v['kind'] == kind)]

    if twin:
        # identical prefixes on both peers: equal labels, different tables
        n, m = rng.randint(2, 5), rng.randint(2, 5)
        li = new_labels(n, m)
        for nd in (1, 2):
            rows = gen_table(rng, n, m)
            slots[(nd, 's0')] = {'li': li, 'n': n, 'm': m, 'kind': 'ctx', 'big': False}
            events.append(['ctx_new', nd, 's0', li, rows])
    else:
        events.append(new_ctx(rng.choice(nodes)))

    if focus == 'C11':
        kinds = ['ctx_new', 'lat_force', 'dict_rt', 'json_w', 'json_r', 'lit_w', 'lit_r', 'pk_w', 'pk_r',
                 'permute', 'restart', 'battery', 'drop']
        wts = [3, 3, 5, 5, 6, 3, 4, 5, 6, 3, 2, 3, 1]
    else:
        kinds = ['ctx_new', 'txt_w', 'txt_r', 'str_rt', 'ref_w', 'ref_r', 'fimi', 'wiki', 'dat', 'restart',
                 'drop', 'lat_force', 'fmt_sub']
        wts = [3, 7, 8, 7, 5, 4, 1, 2, 1, 2, 1, 1, rng.choice([0, 1, 2])]
    wts = [w * rng.choice([1, 1, 2]) for w in wts]

    while len(events) < cfg['n_events']:
        kind = rng.choices(kinds, wts)[0]
        node = rng.choice(nodes)
        have = live(node)
        dst = rng.choice(slot_names)
        if pending_big:
            # a large lattice is expensive to build: use it at once (store it, reload it here or elsewhere)
            nd, s = pending_big.pop()
            info = slots.get((nd, s))
            if info is not None:
                other = rng.choice(nodes)
                how = rng.choice(['dict', 'json', 'json', 'literal', 'pickle'])
                if rng.random() < 0.5:
                    events.append(['lat_force', nd, s])
                if how == 'dict':
                    raw = int(rng.random() < 0.5)
                    events.append(['dict_rt', nd, s, 0, raw, rng.randrange(1, 10 ** 6) if raw else 0, int(rng.random() < 0.5), dst])
                    slots[(nd, dst)] = dict(info, kind='ctx')
                elif how == 'json':
                    t = target('json', '.json')
                    events.append(['json_w', nd, s, t, 'str', None, 1, 0, 'utf-8'])
                    files[t] = dict(info, form='json')
                    if rng.random() < 0.4:
                        events.append(['permute', t, rng.randrange(1, 10 ** 6)])
                        files[t]['permuted'] = True
                    events.append(['json_r', other, t, 'str', 0, 0, int(files[t].get('permuted', False) or rng.random() < 0.3), dst])
                    slots[(other, dst)] = dict(info, kind='ctx')
                elif how == 'literal':
                    t = target('literal', '.py')
                    events.append(['lat_force', nd, s])
                    events.append(['lit_w', nd, s, t, 'file'])
                    files[t] = dict(info, form='literal')
                    events.append(['lit_r', other, t, 'file', dst])
                    slots[(other, dst)] = dict(info, kind='ctx')
                else:
                    what = rng.choice(['ctx', 'lat'])
                    t = target('pickle', '.pkl')
                    events.append(['pk_w', nd, s, what, t, rng.choice([2, 4, 5])])
                    if True:
                        files[t] = dict(info, form='pk_' + what)
                        events.append(['pk_r', other, t, dst])
                        slots[(other, dst)] = dict(info, kind='lat' if what == 'lat' else 'ctx')
            continue
        if kind == 'ctx_new' or not live():
            events.append(new_ctx(node))
            continue
        if kind == 'restart':
            if node == 0 and rng.random() < 0.7 and len(nodes) > 1:
                node = rng.choice(nodes[1:])
            events.append(['restart', node, rng.randrange(1, 2 ** 31)])
            for k in [k for k in slots if k[0] == node]:
                del slots[k]
            continue
        if kind in ('json_r', 'lit_r', 'pk_r', 'txt_r', 'ref_r', 'permute'):
            forms = {'json_r': ['json'], 'lit_r': ['literal'], 'pk_r': ['pk_ctx', 'pk_lat'],
                     'txt_r': TEXT_FORMATS, 'ref_r': ['table', 'cxt', 'csv'], 'permute': ['json', 'literal']}[kind]
            cands = sorted(t for t, f in files.items() if f['form'] in forms)
            if not cands:
                continue
            t = rng.choice(cands)
            f = files[t]
            if kind == 'json_r':
                ev = [kind, node, t, rng.choice(['str', 'str', 'bytes', 'pathlike', 'fileobj', 'fileobj_pos']),
                      int(rng.random() < 0.2), int(rng.random() < 0.2), int(f.get('permuted') or rng.random() < 0.3), dst]
            elif kind == 'lit_r':
                ev = [kind, node, t, rng.choice(['file', 'string']), dst]
            elif kind == 'pk_r':
                ev = [kind, node, t, dst]
            elif kind == 'txt_r':
                via = rng.choice(['fromfile', 'fromfile', 'load', 'definition']
                                 + (['load_csv'] if f['form'] == 'csv' else [])
                                 + (['load_cxt'] if f['form'] == 'cxt' else []))
                ev = [kind, node, t, via, dst]
            elif kind == 'ref_r':
                ev = [kind, t]
            else:
                ev = [kind, t, rng.randrange(1, 10 ** 6)]
                f['permuted'] = True
            if kind not in ('ref_r', 'permute'):
                slots[(node, dst)] = {'li': f['li'], 'n': f['n'], 'm': f['m'],
                                      'kind': 'lat' if f['form'] == 'pk_lat' else ('def' if ev[3] == 'definition' else 'ctx'),
                                      'big': f.get('big', False)}
            events.append(ev)
            continue
        if kind == 'ref_w':
            n, m = rng.randint(1, 6), rng.randint(1, 6)
            li = new_labels(n, m)
            frmat = rng.choice(['table', 'cxt', 'csv'])
            t = target(frmat, SUFFIX[frmat])
            style = {'table': rng.choice(['left', 'center', 'right', 'wide']),
                     'cxt': rng.choice(['nl', 'nonl']),
                     'csv': rng.choice(['plain', 'int', 'quote_all', 'tab', 'header'])}[frmat]
            # line terminators of the platform the independent writer ran on (files only)
            style += rng.choice(['', '', '+crlf', '+crlf', '+cr']) if frmat != 'csv' else rng.choice(['', '', '+lf'])
            enc = rng.choice(['utf-8', 'utf-8', 'utf-16', 'latin-1', 'utf-8-sig', 'utf-16-le'])
            events.append(['ref_w', t, frmat, li, gen_table(rng, n, m), style, enc])
            files[t] = {'form': frmat, 'li': li, 'n': n, 'm': m}
            continue
        if kind == 'fmt_sub':
            # the caller's own Format subclass appears in the process-wide registry of formats
            events.append([kind, node, rng.choice(['csv_tab', 'cxt_alt', 'table_alt', 'literal_alt'])])
            continue
        if not have:
            continue
        nd, s = rng.choice(have)
        info = slots[(nd, s)]
        if kind in ('lat_force', 'battery', 'drop', 'fimi', 'wiki'):
            if kind == 'drop':
                del slots[(nd, s)]
            events.append([kind, nd, s])
        elif kind == 'dict_rt':
            raw = int(rng.random() < 0.5)
            events.append([kind, nd, s, rng.choice([0, 0, 1, 2]), raw,
                           rng.randrange(1, 10 ** 6) if raw and rng.random() < 0.8 else 0,
                           int(rng.random() < 0.5), dst])
            slots[(nd, dst)] = dict(info, kind='ctx')
        elif kind == 'json_w':
            t = target('json', '.json')
            events.append([kind, nd, s, t, rng.choice(['str', 'str', 'bytes', 'pathlike', 'fileobj', 'fileobj_pos']),
                           rng.choice([None, None, 0, 2, 4]), int(rng.random() < 0.7), rng.choice([0, 0, 0, 1]),
                           rng.choice(['utf-8', 'utf-8', 'utf-16', 'latin-1', 'utf-32'])])
            files[t] = dict(info, form='json')
        elif kind == 'lit_w':
            t = target('literal', '.py')
            events.append([kind, nd, s, t, rng.choice(['file', 'string'])])
            files[t] = dict(info, form='literal')
        elif kind == 'pk_w':
            what = rng.choice(['ctx', 'lat'])
            if info['kind'] == 'lat':
                what = 'lat'
            t = target('pickle', '.pkl')
            events.append([kind, nd, s, what, t, rng.choice([0, 1, 2, 3, 4, 5, 6])])
            files[t] = dict(info, form='pk_' + what)
        elif kind == 'txt_w':
            frmat = rng.choice(TEXT_FORMATS)
            t = target(frmat, SUFFIX[frmat])
            kwargs = {}
            if frmat == 'csv':
                if rng.random() < 0.4:
                    kwargs['bools_as_int'] = True
                if rng.random() < 0.35:
                    kwargs['dialect'] = rng.choice(['excel-tab', 'excel-tab', '@excel_tab', '@excel_tab()', '@excel', 'excel'])
                if rng.random() < 0.3:
                    # any text, also one that happens to be a label of the context itself
                    kwargs['object_header'] = rng.choice(['name', 'o,bj', '', rng.choice(labels[info['li']][1]),
                                                          rng.choice(labels[info['li']][0])])
            if frmat == 'table' and rng.random() < 0.4:
                kwargs['indent'] = rng.choice([0, 1, 4, 9])
            enc = rng.choice(['utf-8', 'utf-8', 'utf-16', 'latin-1', 'utf-8-sig', 'utf-16-le', 'utf-16-be', 'cp1252'])
            events.append([kind, nd, s, frmat, t, enc, kwargs])
            files[t] = dict(info, form=frmat)
        elif kind == 'str_rt':
            frmat = rng.choice(TEXT_FORMATS)
            kwargs = {}
            if frmat == 'csv':
                if rng.random() < 0.4:
                    kwargs['bools_as_int'] = True
                if rng.random() < 0.35:
                    kwargs['dialect'] = rng.choice(['excel-tab', '@excel_tab', '@excel_tab()', '@excel', '@unix()'])
            if frmat == 'table' and rng.random() < 0.5:
                kwargs['indent'] = rng.choice([0, 2, 7])
            events.append([kind, nd, s, frmat, kwargs, rng.choice(['fromstring', 'make_context']),
                           rng.choice(['', '', 'upper', 'title'])])
        elif kind == 'dat':
            events.append([kind, nd, s, target('dat', '.dat'), int(rng.random() < 0.5)])
        else:  # pragma: no cover
            raise AssertionError(kind)
        # bias disturbances to land right after a write: read it elsewhere / after a restart
        if events[-1][0] in ('json_w', 'lit_w', 'pk_w', 'txt_w') and rng.random() < 0.6:
            w = events[-1]
            other = rng.choice(nodes)
            if len(nodes) > 1 and rng.random() < 0.35 and other != 0:
                events.append(['restart', other, rng.randrange(1, 2 ** 31)])
                for k in [k for k in slots if k[0] == other]:
                    del slots[k]
            t = w[3] if w[0] in ('json_w', 'lit_w') else w[4]
            if t not in files:
                continue
            f = files[t]
            if w[0] == 'json_w':
                events.append(['json_r', other, t, rng.choice(['str', 'pathlike', 'fileobj', 'fileobj_pos']), 0, 0, int(rng.random() < 0.3), dst])
                kind2 = 'ctx'
            elif w[0] == 'lit_w':
                events.append(['lit_r', other, t, 'file', dst])
                kind2 = 'ctx'
            elif w[0] == 'pk_w':
                events.append(['pk_r', other, t, dst])
                kind2 = 'lat' if w[3] == 'lat' else 'ctx'
            else:
                events.append(['txt_r', other, t, rng.choice(['fromfile', 'load']), dst])
                kind2 = 'ctx'
            slots[(other, dst)] = {'li': f['li'], 'n': f['n'], 'm': f['m'], 'kind': kind2, 'big': f.get('big', False)}
            if w[0] in ('txt_w', 'json_w') and not f.get('big') and rng.random() < 0.35:
                # the same path rewritten at once with another table over the same labels (for the fixed-width
                # formats: a file of exactly the same size, within the same second) and read again
                s2 = rng.choice(slot_names)
                events.append(['ctx_new', w[1], s2, f['li'], gen_table(rng, f['n'], f['m'])])
                slots[(w[1], s2)] = {'li': f['li'], 'n': f['n'], 'm': f['m'], 'kind': 'ctx', 'big': False}
                events.append([w[0], w[1], s2] + list(w[3:]))
                events.append(list(events[-3][:-1]) + [dst] if events[-3][0] in ('txt_r', 'json_r') else ['battery', other, dst])
    return {'world': WORLD, 'seed': seed, 'run': run, 'labels': labels, 'config': cfg, 'events': events}


# ------------------------------------------------------------------- executor

class Storage:

    def __init__(self, plan, rec):
        self.plan, self.rec = plan, rec
        self.cfg = plan['config']
        self.labels = plan['labels']
        self.nodes = {}
        self.slots = {}      # (node, slot) -> dict(li, fca, kind, has_lat)
        self.files = {}      # target -> dict(form, li, fca, has_lat, permuted, enc, kwargs)
        self.dir = None
        self.seeds = dict(enumerate(self.cfg.get('node_seeds', []), start=1))
        self.setarch = None
        self.batt = {}       # (labels, table, kind, battery options) -> first digest seen, with node and hash seed

    # ------------------------------------------------------------ plumbing

    def node(self, n):
        if n not in self.nodes:
            if n == 0:
                self.nodes[0] = Node()
            else:
                from . import peers, seams
                if self.setarch is None:
                    self.setarch = bool(self.cfg.get('aslr_off')) and seams.setarch_available()
                    if self.setarch:
                        self.rec.probe('aslr_off_peers')
                hs = self.seeds.get(n, 7 + n)
                self.nodes[n] = peers.Peer(hs, self.cfg.get('peer_env') or {}, setarch=self.setarch)
                self.rec.probe('peer_started')
        return self.nodes[n]

    def send(self, n, cmd):
        return self.node(n).handle(cmd)

    def path(self, target):
        p = os.path.join(self.dir, target)
        os.makedirs(os.path.dirname(p), exist_ok=True)
        return p

    def triple_cmd(self, info):
        objs, props = self.labels[info['li']]
        return {'objects': list(objs), 'properties': list(props),
                'bools': [[int(b) for b in r] for r in info['fca'].bools()]}

    def hashseed_of(self, node):
        return int(core.HARNESS_HASHSEED) if node == 0 else self.seeds.get(node, 7 + node)

    def writer_reader_fault(self, node, f):
        w = f.get('writer_node')
        if w is None:
            return
        if w != node or f.get('writer_epoch') != self.epoch.get(node, 0):
            self.rec.fault('reader_is_another_process' if w != node else 'restart_between_write_and_read')
            if f.get('writer_seed') != self.hashseed_of(node):
                self.rec.fault('hashseed_switch')

    def close(self):
        for n, nd in self.nodes.items():
            if n != 0:
                nd.kill()
        if self.dir:
            shutil.rmtree(self.dir, ignore_errors=True)

    # ------------------------------------------------------------ run

    def run(self):
        rec = self.rec
        self.dir = tempfile.mkdtemp(prefix='verif-s-')
        rec.scrub.append(self.dir)
        self.epoch = {}
        try:
            for index, ev in enumerate(self.plan['events']):
                rec.begin(index, ev)
                rec.sched_step(ev[0], ev[1] if len(ev) > 1 and isinstance(ev[1], int) else '',
                               sorted(self.files), sorted(map(str, self.slots)))
                getattr(self, 'ev_' + ev[0])(*ev[1:])
                rec.state(canon([sorted((str(k), v['li'], tuple(v['fca'].rows), v['kind'], v.get('has_lat'))
                                        for k, v in self.slots.items()),
                                 sorted((t, f['form'], f['li'], bool(f.get('permuted'))) for t, f in self.files.items())]))
        finally:
            self.close()

    # ------------------------------------------------------------ events: objects

    def ev_fmt_sub(self, node, which):
        if node >= self.cfg['n_nodes']:
            return self.rec.log('noop')
        r = self.send(node, {'op': 'fmt_subclass', 'which': which})
        if r['ok']:
            self.rec.fault('format_subclass_registered')
        self.rec.log(str(r))

    def ev_ctx_new(self, node, slot, li, rows):
        objs, props = self.labels[li]
        fca = FCA(len(objs), len(props), rows)
        info = {'li': li, 'fca': fca, 'kind': 'ctx', 'has_lat': False}
        r = self.send(node, dict(self.triple_cmd(info), op='new', dst=slot))
        if not r['ok']:
            prop = sorted(self.rec.props)[0]
            raise core.Violation(prop, f'{prop}.context_constructs', f'Context(...) raised {r} for {objs, props, rows}')
        self.slots[(node, slot)] = info
        if len(fca.rows) > 15:
            self.rec.probe('large_context')
        self.rec.log('ok')

    def ev_lat_force(self, node, slot):
        info = self.slots.get((node, slot))
        if info is None or info['kind'] != 'ctx':
            return self.rec.log('noop')
        r = self.send(node, {'op': 'force', 'slot': slot})
        n = len(info['fca'].concepts())
        self.rec.check('C11.lattice_size', r['ok'] and r['n'] == n, lambda: f'len(lattice) = {r} model {n}')
        info['has_lat'] = True
        if n >= 400:
            self.rec.fault('large_lattice(>=400 concepts)')
        self.rec.log(str(r.get('n')))

    def ev_drop(self, node, slot):
        if (node, slot) in self.slots:
            self.send(node, {'op': 'drop', 'slot': slot})
            del self.slots[(node, slot)]
        self.rec.log('ok')

    def ev_restart(self, node, hashseed):
        rec = self.rec
        if node >= self.cfg['n_nodes']:
            return rec.log('noop')
        if node == 0:
            self.nodes[0] = Node()     # every object is dropped; the process image stays
            import gc
            gc.collect()
        else:
            if node in self.nodes:
                self.nodes[node].kill()
                del self.nodes[node]
            self.seeds[node] = hashseed
        for k in [k for k in self.slots if k[0] == node]:
            del self.slots[k]
        self.epoch[node] = self.epoch.get(node, 0) + 1
        rec.fault('restart')
        rec.log('ok')

    def ev_battery(self, node, slot):
        info = self.slots.get((node, slot))
        if info is None:
            return self.rec.log('noop')
        self.battery(node, slot, info, 'C11.noninterference')

    def battery(self, node, slot, info, oracle):
        rec = self.rec
        if info['kind'] == 'def':
            return
        nc = len(info['fca'].concepts())
        big = nc > 300
        cmd = dict(self.triple_cmd(info), op='battery_cmp', slot=slot,
                   limit=24 if big else 60, heavy=True, text_dumps=not big)
        r = self.send(node, cmd)
        rec.check(oracle, r['ok'] and r['same'],
                  lambda: f'battery of {slot}@{node} differs from the recomputed context: {r.get("diff") or r}')
        if info['kind'] == 'ctx':
            rec.check(oracle.split('.')[0] + '.reload_eq_original', r['ok'] and r['eq'] == [True, False, True],
                      lambda: f'{slot}@{node} == recomputed gives {r.get("eq")}')
            info['has_lat'] = True
        # "equivalent object in the same or in another interpreter process": the transcript of every public query
        # is the same on whichever node (hash seed, process image) an object with this table is asked
        key = (info['li'], tuple(info['fca'].rows), info['kind'], cmd['limit'], cmd['text_dumps'])
        first = self.batt.setdefault(key, (r.get('digest'), node, self.hashseed_of(node)))
        if first[1] != node or first[2] != self.hashseed_of(node):
            rec.probe('battery_compared_across_processes')
        rec.check(oracle.split('.')[0] + '.battery_same_in_every_process', r.get('digest') == first[0],
                  lambda: f'battery of {slot}@{node} (hash seed {self.hashseed_of(node)}) has digest {r.get("digest", "")[:12]} '
                          f'but the same table gave {first[0][:12]} on node {first[1]} (hash seed {first[2]})')
        rec.log(f'battery {r.get("digest", "")[:12]} n={r.get("n")}')

    def expect_lattice(self, node, slot, info, expected):
        r = self.send(node, {'op': 'has_lattice', 'slot': slot})
        self.rec.check('C11.lattice_presence', r['ok'] and r['has'] == expected,
                       lambda: f'lattice present after load: {r} expected {expected}')
        info['has_lat'] = expected

    # ------------------------------------------------------------ events: C11 forms

    def ev_dict_rt(self, node, slot, ign, raw, perm, as_lists, dst):
        rec = self.rec
        info = self.slots.get((node, slot))
        if info is None or info['kind'] != 'ctx':
            return rec.log('noop')
        ignore = {0: False, 1: True, 2: None}[ign]
        objs, props = self.labels[info['li']]
        if info['has_lat'] is None:
            h = self.send(node, {'op': 'has_lattice', 'slot': slot})
            info['has_lat'] = bool(h.get('has'))
        r = self.send(node, {'op': 'todict', 'slot': slot, 'ignore_lattice': ignore})
        with_lat = (ignore is False) or (ignore is None and info['has_lat'])
        if ignore is None and info['has_lat']:
            rec.probe('lazy_lattice_present_at_dump')
        if ignore is None and not info['has_lat']:
            rec.probe('lazy_lattice_absent_at_dump')
        want = info['fca'].documented_dict(objs, props, with_lattice=with_lat)
        rec.check('C11.todict_eq_documented', r['ok'] and r['dict'] == _jsonable(want) and set(r['keys']) == set(want),
                  lambda: f'todict(ignore_lattice={ignore}) = {str(r)[:600]} documented {str(_jsonable(want))[:600]}')
        if with_lat:
            info['has_lat'] = True
        rec.log('todict ' + (core.sha(canon(r['dict']))[:16] if r['ok'] else str(r)))
        d = want if not r['ok'] else r['dict']
        if raw and perm:
            d = storeutil.permute_dict(d, perm)
            rec.fault('stored_order_permutation(raw)')
        d = _jsonable(d) if as_lists else d
        r2 = self.send(node, {'op': 'fromdict', 'dst': dst, 'dict': _jsonable(d), 'raw': bool(raw),
                              'as_lists': bool(as_lists)})
        rec.check('C11.fromdict_accepts', r2['ok'], lambda: f'fromdict raised {r2} (raw={raw}, perm={perm})')
        if not r2['ok']:
            self.slots.pop((node, dst), None)
            return rec.log('rejected')
        new = {'li': info['li'], 'fca': info['fca'], 'kind': 'ctx', 'has_lat': False}
        self.slots[(node, dst)] = new
        self.expect_lattice(node, dst, new, with_lat)
        self.battery(node, dst, new, 'C11.reload_battery_eq_recomputed')

    def ev_json_w(self, node, slot, target, pathkind, indent, sort_keys, ign, enc='utf-8'):
        rec = self.rec
        info = self.slots.get((node, slot))
        if info is None or info['kind'] != 'ctx':
            return rec.log('noop')
        p = self.path(target)
        before = os.path.getsize(p) if os.path.exists(p) else None
        r = self.send(node, {'op': 'tojson', 'slot': slot, 'path': p, 'pathkind': pathkind, 'indent': indent,
                             'sort_keys': bool(sort_keys), 'ignore_lattice': bool(ign), 'encoding': enc})
        rec.check('C11.tojson_succeeds', r['ok'], lambda: f'tojson({pathkind}) raised {r}')
        if not r['ok']:
            self.files.pop(target, None)
            return rec.log('failed')
        if not ign:
            info['has_lat'] = True
        objs, props = self.labels[info['li']]
        want = _jsonable(info['fca'].documented_dict(objs, props, with_lattice=not ign))
        try:
            with open(p, encoding=enc) as f:
                got = json.load(f)
        except (UnicodeError, ValueError) as e:
            got = f'not readable as {enc} JSON: {e!r}'
        rec.check('C11.json_eq_documented', got == want,
                  lambda: f'JSON file ({enc}) content {str(got)[:500]} documented {str(want)[:500]}')
        if before is not None:
            rec.fault('path_overwrite')
            if before > os.path.getsize(p):
                rec.probe('overwrite_longer_file')
        self.files[target] = {'form': 'json', 'li': info['li'], 'fca': info['fca'], 'has_lat': not ign, 'enc': enc,
                              'permuted': False, 'writer_node': node, 'writer_epoch': self.epoch.get(node, 0),
                              'writer_seed': self.hashseed_of(node)}
        with open(p, 'rb') as fh:
            rec.log('ok ' + core.sha(fh.read().decode(enc, errors='replace'))[:16])

    def ev_json_r(self, node, target, pathkind, ign, req, raw, dst):
        rec = self.rec
        f = self.files.get(target)
        if f is None or f['form'] != 'json' or node >= self.cfg['n_nodes']:
            return rec.log('noop')
        raw = bool(raw) or f['permuted']
        self.writer_reader_fault(node, f)
        r = self.send(node, {'op': 'fromjson', 'dst': dst, 'path': self.path(target), 'pathkind': pathkind,
                             'ignore_lattice': bool(ign), 'require_lattice': bool(req), 'raw': raw,
                             'encoding': f.get('enc', 'utf-8')})
        must_fail = bool(req) and not f['has_lat']
        if must_fail:
            rec.fault('rejected_call')
            rec.check('C11.require_lattice', not r['ok'], lambda: 'require_lattice accepted a file without lattice')
            self.slots.pop((node, dst), None)
            return rec.log('rejected')
        rec.check('C11.fromjson_accepts', r['ok'], lambda: f'fromjson raised {r} (raw={raw}, permuted={f["permuted"]})')
        if not r['ok']:
            self.slots.pop((node, dst), None)
            return rec.log('failed')
        new = {'li': f['li'], 'fca': f['fca'], 'kind': 'ctx', 'has_lat': False}
        self.slots[(node, dst)] = new
        self.expect_lattice(node, dst, new, f['has_lat'] and not ign)
        self.battery(node, dst, new, 'C11.reload_battery_eq_recomputed')

    def ev_lit_w(self, node, slot, target, mode):
        rec = self.rec
        info = self.slots.get((node, slot))
        if info is None or info['kind'] != 'ctx':
            return rec.log('noop')
        p = self.path(target)
        existed = os.path.exists(p)
        fname = ('python-literal', 'Python-Literal', 'PYTHON-LITERAL', 'python-literal')[(len(target) + len(slot)) % 4]
        if mode == 'file':                        # format names are case-insensitive
            r = self.send(node, {'op': 'tofile', 'slot': slot, 'path': p, 'frmat': fname})
        else:
            r = self.send(node, {'op': 'tostring', 'slot': slot, 'frmat': fname})
            if r['ok']:
                with open(p, 'w', encoding='utf-8') as fh:
                    fh.write(r['text'])
        rec.check('C11.literal_dump_succeeds', r['ok'], lambda: f'python-literal dump raised {r}')
        if not r['ok']:
            self.files.pop(target, None)
            return rec.log('failed')
        try:
            with open(p, encoding='utf-8') as fh:
                got = ast.literal_eval(fh.read())
        except (SyntaxError, ValueError, UnicodeError) as e:
            rec.check('C11.literal_eq_documented', False, lambda: f'python-literal text of {target} does not evaluate: {e!r}')
            self.files.pop(target, None)
            return rec.log('unreadable')
        objs, props = self.labels[info['li']]
        if info['has_lat'] is None:     # e.g. an unpickled context: adopt what the library says
            info['has_lat'] = 'lattice' in got
        want = info['fca'].documented_dict(objs, props, with_lattice=info['has_lat'])
        rec.check('C11.literal_eq_documented', _jsonable(got) == _jsonable(want),
                  lambda: f'literal text evaluates to {str(got)[:500]} documented {str(want)[:500]}')
        if info['has_lat']:
            rec.probe('lazy_lattice_present_at_dump')
        else:
            rec.probe('lazy_lattice_absent_at_dump')
        if existed:
            rec.fault('path_overwrite')
        self.files[target] = {'form': 'literal', 'li': info['li'], 'fca': info['fca'], 'has_lat': info['has_lat'],
                              'permuted': False, 'writer_node': node, 'writer_epoch': self.epoch.get(node, 0),
                              'writer_seed': self.hashseed_of(node)}
        with open(p, 'rb') as fh:
            rec.log('ok ' + core.sha(fh.read().decode('utf-8'))[:16])

    def ev_lit_r(self, node, target, mode, dst):
        rec = self.rec
        f = self.files.get(target)
        if f is None or f['form'] != 'literal' or f['permuted'] or node >= self.cfg['n_nodes']:
            return rec.log('noop')   # the literal loader has no raw switch: permuted storage is garbage-in
        self.writer_reader_fault(node, f)
        if mode == 'file':
            r = self.send(node, {'op': 'fromfile', 'dst': dst, 'path': self.path(target),
                                 'frmat': 'python-literal', 'encoding': 'utf-8'})
        else:
            with open(self.path(target), encoding='utf-8') as fh:
                text = fh.read()
            r = self.send(node, {'op': 'fromstring', 'dst': dst, 'text': text, 'frmat': 'python-literal'})
        rec.check('C11.literal_load_accepts', r['ok'], lambda: f'python-literal load raised {r}')
        if not r['ok']:
            self.slots.pop((node, dst), None)
            return rec.log('failed')
        new = {'li': f['li'], 'fca': f['fca'], 'kind': 'ctx', 'has_lat': False}
        self.slots[(node, dst)] = new
        self.expect_lattice(node, dst, new, f['has_lat'])
        self.battery(node, dst, new, 'C11.reload_battery_eq_recomputed')

    def ev_permute(self, target, k):
        rec = self.rec
        f = self.files.get(target)
        if f is None or f['form'] not in ('json', 'literal') or f['form'] == 'literal':
            return rec.log('noop')
        p = self.path(target)
        with open(p, encoding=f.get('enc', 'utf-8')) as fh:
            d = json.load(fh)
        d2 = _jsonable(storeutil.permute_dict(d, k))
        with open(p, 'w', encoding=f.get('enc', 'utf-8')) as fh:
            json.dump(d2, fh)
        f['permuted'] = True
        rec.fault('stored_order_permutation(raw)')
        rec.log('ok')

    def ev_pk_w(self, node, slot, what, target, proto):
        rec = self.rec
        info = self.slots.get((node, slot))
        if info is None or info['kind'] not in ('ctx', 'lat'):
            return rec.log('noop')
        if info['kind'] == 'lat':
            what = 'lat'      # the slot holds a loaded lattice: pickle it again (second generation)
            rec.probe('second_generation_lattice_pickle')
        p = self.path(target)
        existed = os.path.exists(p)
        r = self.send(node, {'op': 'pickle_dump', 'slot': slot, 'what': 'lattice' if what == 'lat' else 'context',
                             'path': p, 'protocol': proto})
        nc = len(info['fca'].concepts())
        if what == 'lat':
            info['has_lat'] = True
            if nc >= 400:
                rec.fault('large_lattice(>=400 concepts)')
        if not r['ok']:
            self.files.pop(target, None)
            if os.path.exists(p):
                os.unlink(p)
            for k in rec.known:
                m = k.get('match', {})
                if (k.get('oracle') == 'C11.pickle_dumps_succeeds' and what == m.get('what')
                        and r.get('err') == m.get('err') and nc >= m.get('min_concepts', 0)):
                    rec.evals += 1
                    rec.known_finding('C11', 'C11.pickle_dumps_succeeds',
                                      k.get('what', '') + f' (seen with {nc} concepts)')
                    return rec.log('known-finding')
        rec.check('C11.pickle_dumps_succeeds', r['ok'],
                  lambda: f'pickle.dumps({what}, protocol={proto}) raised {r.get("err")} for a lattice of {nc} concepts '
                          f'({info["fca"].n}x{info["fca"].m} context)')
        if not r['ok']:
            return rec.log('failed')
        if existed:
            rec.fault('path_overwrite')
        self.files[target] = {'form': 'pk_' + what, 'li': info['li'], 'fca': info['fca'], 'has_lat': what == 'lat',
                              'permuted': False, 'writer_node': node, 'writer_epoch': self.epoch.get(node, 0),
                              'writer_seed': self.hashseed_of(node)}
        rec.log('ok')

    def ev_pk_r(self, node, target, dst):
        rec = self.rec
        f = self.files.get(target)
        if f is None or not f['form'].startswith('pk_') or node >= self.cfg['n_nodes']:
            return rec.log('noop')
        self.writer_reader_fault(node, f)
        foreign = f.get('writer_node') != node or f.get('writer_epoch') != self.epoch.get(node, 0)
        rec.fault('foreign_unpickle' if foreign else 'same_process_unpickle')
        what = f['form'][3:]
        r = self.send(node, {'op': 'pickle_load', 'dst': dst, 'path': self.path(target),
                             'expect': 'lattice' if what == 'lat' else 'context'})
        rec.check('C11.pickle_loads', r['ok'], lambda: f'pickle.load of a {what} pickle raised {r}')
        if not r['ok']:
            self.slots.pop((node, dst), None)
            return rec.log('failed')
        # whether an unpickled context already carries a lattice is not specified: unknown until asked
        new = {'li': f['li'], 'fca': f['fca'], 'kind': what if what == 'lat' else 'ctx',
               'has_lat': True if what == 'lat' else None}
        self.slots[(node, dst)] = new
        self.battery(node, dst, new, 'C11.pickle_battery_eq_recomputed')
        # every other live object on that node must be unaffected by the load (same labels, other table)
        for (nd, s), info in sorted(self.slots.items(), key=lambda kv: str(kv[0])):
            if nd == node and s != dst and info['li'] == f['li'] and len(info['fca'].concepts()) <= 300:
                if info['fca'].rows != f['fca'].rows:
                    self.rec.probe('live_same_labels_other_table_during_load')
                self.battery(nd, s, info, 'C11.noninterference')

    # ------------------------------------------------------------ events: C12 text formats

    def _enc_ok(self, enc, names):
        try:
            for n in names:
                n.encode(enc)
            return True
        except UnicodeEncodeError:
            return False

    def _triple(self, info):
        objs, props = self.labels[info['li']]
        return list(objs), list(props), [tuple(r) for r in info['fca'].bools()]

    def check_triple(self, oracle, node, slot, info, what):
        r = self.send(node, {'op': 'triple', 'slot': slot})
        o, p, b = self._triple(info)
        want = {'objects': o, 'properties': p, 'bools': [[int(x) for x in r_] for r_ in b]}
        got = {k: r.get(k) for k in want}
        self.rec.check(oracle, r['ok'] and got == want, lambda: f'{what}: loaded {str(got)[:700]} expected {str(want)[:700]}')

    def ev_txt_w(self, node, slot, frmat, target, enc, kwargs):
        rec = self.rec
        info = self.slots.get((node, slot))
        if info is None or info['kind'] != 'ctx':
            return rec.log('noop')
        objs, props = self.labels[info['li']]
        names = list(objs) + list(props)
        if not representable(frmat, names) or not self._enc_ok(enc, names + [kwargs.get('object_header') or '']):
            return rec.log('unrepresentable')
        p = self.path(target)
        before = os.path.getsize(p) if os.path.exists(p) else None
        r = self.send(node, {'op': 'tofile', 'slot': slot, 'path': p, 'frmat': frmat, 'encoding': enc,
                             'kwargs': kwargs, 'pathkind': 'pathlike' if len(target) % 2 else 'str'})
        rec.check('C12.tofile_succeeds', r['ok'], lambda: f'tofile({frmat}, {enc}, {kwargs}) raised {r} labels={names!r}')
        if not r['ok']:
            self.files.pop(target, None)
            return rec.log('failed')
        if before is not None:
            rec.fault('path_overwrite')
            if before > os.path.getsize(p):
                rec.probe('overwrite_longer_file')
        with open(p, 'rb') as fh:
            data = fh.read()
        try:
            text = data.decode(enc)
        except UnicodeDecodeError as e:
            rec.check('C12.overwrite_exact', False, lambda: f'file {target} is not valid {enc} after tofile: {e}')
            self.files.pop(target, None)
            return rec.log('undecodable')
        # history independence of the disk: writing over an existing (longer, shorter, other-format) file must
        # leave exactly the bytes that writing the same thing to a fresh path leaves
        if before is not None:
            fresh = p + '.fresh'
            r2 = self.send(node, {'op': 'tofile', 'slot': slot, 'path': fresh, 'frmat': frmat, 'encoding': enc,
                                  'kwargs': kwargs})
            if r2['ok']:
                with open(fresh, 'rb') as fh:
                    clean = fh.read()
                os.unlink(fresh)
                rec.check('C12.overwrite_exact', data == clean,
                          lambda: f'{target} overwritten: {len(data)} bytes ...{data[-120:]!r}, the same dump to a '
                                  f'fresh path: {len(clean)} bytes ...{clean[-120:]!r}')
        self.ref_read_check(frmat, text, info, kwargs, f'file {target} written by tofile({frmat})')
        self.files[target] = {'form': frmat, 'li': info['li'], 'fca': info['fca'], 'enc': enc, 'kwargs': kwargs,
                              'permuted': False, 'has_lat': False, 'writer': 'lib',
                              'writer_node': node, 'writer_epoch': self.epoch.get(node, 0),
                              'writer_seed': self.hashseed_of(node)}
        rec.log('ok ' + core.sha(text)[:16])

    def ref_read_check(self, frmat, text, info, kwargs, what):
        rec = self.rec
        if frmat == 'python-literal':
            try:
                d = ast.literal_eval(text)
                objs, props = self.labels[info['li']]
                want = info['fca'].documented_dict(objs, props, with_lattice=False)
                got = {k: d.get(k) for k in want}
                ok = _jsonable(got) == _jsonable(want)
            except Exception as e:  # noqa: BLE001
                ok, got = False, repr(e)
            rec.check('C12.ref_reads_lib', ok, lambda: f'{what}: literal evaluates to {str(got)[:500]}')
            return
        import csv as _csv
        try:
            if frmat == 'csv':
                delim = '\t' if 'tab' in str(kwargs.get('dialect')) else ','
                got = refcodec.read_csv(text, delimiter=delim)
            else:
                got = refcodec.READERS[frmat](text)
            got = (list(got[0]), list(got[1]), [tuple(r) for r in got[2]])
        except (refcodec.RefError, ValueError, IndexError, _csv.Error) as e:
            got = f'reference reader failed: {e!r}'
        want = self._triple(info)
        rec.check('C12.ref_reads_lib', got == want,
                  lambda: f'{what}: reference reader recovers {str(got)[:600]} expected {str(want)[:600]} text={text[:400]!r}')

    def ev_txt_r(self, node, target, via, dst):
        rec = self.rec
        f = self.files.get(target)
        if f is None or f['form'] not in TEXT_FORMATS or node >= self.cfg['n_nodes']:
            return rec.log('noop')
        frmat = f['form']
        kwargs = {}
        if frmat == 'csv' and f.get('kwargs', {}).get('dialect'):
            kwargs['dialect'] = f['kwargs']['dialect']
        if via in ('load_csv', 'load_cxt') and via[5:] != frmat:
            via = 'fromfile'
        explicit = None
        if via == 'load':
            suffix = os.path.splitext(target)[1].lower()
            if kwargs:
                via = 'fromfile'
            elif SUFFIX[frmat] != suffix:
                explicit = frmat          # load(path, frmat=...) with a neutral or misleading suffix
                rec.probe('explicit_format_beats_suffix')
            else:
                rec.probe('format_inferred_from_suffix')
                if os.path.splitext(target)[1] != suffix:
                    rec.probe('suffix_case_differs')
        if via == 'definition' and frmat == 'python-literal':
            via = 'fromfile'
        self.writer_reader_fault(node, f)
        cmd = {'op': 'fromfile', 'dst': dst, 'path': self.path(target), 'via': via, 'encoding': f['enc'], 'kwargs': kwargs,
               'pathkind': 'pathlike' if (len(target) + len(dst)) % 2 else 'str'}
        if via in ('fromfile', 'definition'):
            cmd['frmat'] = frmat
        elif explicit:
            cmd['frmat'] = explicit
        r = self.send(node, cmd)
        oracle = 'C12.lib_roundtrip' if f.get('writer') == 'lib' else 'C12.lib_reads_ref'
        rec.check(oracle, r['ok'], lambda: f'{via}({target}, {frmat}, {f["enc"]}) raised {r}; labels={self.labels[f["li"]]!r}')
        if not r['ok']:
            self.slots.pop((node, dst), None)
            return rec.log('failed')
        new = {'li': f['li'], 'fca': f['fca'], 'kind': 'def' if via == 'definition' else 'ctx', 'has_lat': False}
        self.slots[(node, dst)] = new
        self.check_triple(oracle, node, dst, new, f'{via}({target}, {frmat}) written by {f.get("writer")}')
        rec.log('ok')

    def ev_str_rt(self, node, slot, frmat, kwargs, via, namecase=''):
        rec = self.rec
        info = self.slots.get((node, slot))
        if info is None or info['kind'] not in ('ctx', 'def'):
            return rec.log('noop')
        objs, props = self.labels[info['li']]
        names = list(objs) + list(props)
        if not representable(frmat, names):
            return rec.log('unrepresentable')
        fname = {'upper': frmat.upper(), 'title': frmat.title()}.get(namecase, frmat)   # names are case-insensitive
        s = self.send(node, {'op': 'tostring', 'slot': slot, 'frmat': fname, 'kwargs': kwargs})
        rec.check('C12.tostring_succeeds', s['ok'], lambda: f'tostring({fname}, {kwargs}) raised {s}')
        if not s['ok']:
            return rec.log('failed')
        self.ref_read_check(frmat, s['text'], info, kwargs, f'tostring({fname}, {kwargs})')
        rkw = {}
        if frmat == 'csv' and kwargs.get('dialect'):
            rkw['dialect'] = kwargs['dialect']
        if rkw:
            via = 'fromstring'
        r = self.send(node, {'op': 'fromstring', 'dst': '_rt', 'text': s['text'], 'frmat': fname, 'via': via, 'kwargs': rkw})
        rec.check('C12.lib_roundtrip', r['ok'], lambda: f'fromstring(tostring({frmat})) raised {r}; text={s["text"][:300]!r}')
        if r['ok']:
            new = {'li': info['li'], 'fca': info['fca'], 'kind': 'ctx', 'has_lat': False}
            self.check_triple('C12.lib_roundtrip', node, '_rt', new, f'fromstring(tostring({frmat}, {kwargs}))')
            e = self.send(node, {'op': 'eq', 'a': slot, 'b': '_rt'}) if info['kind'] == 'ctx' else None
            if e is not None:
                rec.check('C12.lib_roundtrip', e['ok'] and e['eq'] is True and e['ne'] is False,
                          lambda: f'fromstring(tostring({frmat})) != original: {e}')
            self.send(node, {'op': 'drop', 'slot': '_rt'})
        rec.log(core.sha(s['text'])[:12])

    def ev_ref_w(self, target, frmat, li, rows, style, enc):
        rec = self.rec
        objs, props = self.labels[li]
        names = list(objs) + list(props)
        fca = FCA(len(objs), len(props), rows)
        if not representable(frmat, names) or not self._enc_ok(enc, names):
            return rec.log('unrepresentable')
        bools = fca.bools()
        kwargs = {}
        style, _, eol = style.partition('+')
        if frmat == 'table':
            text = refcodec.write_table(objs, props, bools, style=style)
        elif frmat == 'cxt':
            text = refcodec.write_cxt(objs, props, bools, trailing_newline=(style == 'nl'))
        else:
            delim = '\t' if style == 'tab' else ','
            if style == 'tab':
                kwargs['dialect'] = 'excel-tab'
            text = refcodec.write_csv(objs, props, bools, delimiter=delim, as_int=(style == 'int'),
                                      quote_all=(style == 'quote_all'), header='obj' if style == 'header' else '',
                                      terminator='\n' if eol == 'lf' else '\r\n')
        if frmat != 'csv' and eol:
            text = text.replace('\n', {'crlf': '\r\n', 'cr': '\r'}[eol])
            rec.probe('reference_writer_foreign_line_endings')
        p = self.path(target)
        if os.path.exists(p):
            rec.fault('path_overwrite')
        with open(p, 'w', encoding=enc, newline='') as fh:
            fh.write(text)
        self.files[target] = {'form': frmat, 'li': li, 'fca': fca, 'enc': enc, 'kwargs': kwargs, 'permuted': False,
                              'has_lat': False, 'writer': 'ref', 'writer_node': None}
        rec.probe('reference_writer_files')
        rec.log('ok')

    def ev_ref_r(self, target):
        rec = self.rec
        f = self.files.get(target)
        if f is None or f.get('writer') != 'lib' or f['form'] not in ('table', 'cxt', 'csv'):
            return rec.log('noop')
        with open(self.path(target), 'rb') as fh:
            text = fh.read().decode(f['enc'], errors='replace')
        self.ref_read_check(f['form'], text, f, f.get('kwargs', {}), f'file {target}')
        rec.log('ok')

    def ev_fimi(self, node, slot):
        rec = self.rec
        info = self.slots.get((node, slot))
        if info is None or info['kind'] != 'ctx':
            return rec.log('noop')
        s = self.send(node, {'op': 'tostring', 'slot': slot, 'frmat': 'fimi'})
        want = refcodec.fimi_rows(info['fca'].bools())
        ok = s['ok']
        got = None
        if ok:
            try:
                got = refcodec.read_index_rows(s['text'])
            except ValueError as e:
                got = repr(e)
        rec.check('C12.fimi_rows', ok and got == want, lambda: f'fimi text {s} lists {got} expected {want}')
        rec.log('ok')

    def ev_wiki(self, node, slot):
        rec = self.rec
        info = self.slots.get((node, slot))
        if info is None or info['kind'] != 'ctx':
            return rec.log('noop')
        objs, props = self.labels[info['li']]
        if not representable('wiki-table', list(objs) + list(props)):
            return rec.log('unrepresentable')
        s = self.send(node, {'op': 'tostring', 'slot': slot, 'frmat': 'wiki-table'})
        rec.check('C12.tostring_succeeds', s['ok'], lambda: f'tostring(wiki-table) raised {s}')
        if s['ok']:
            self.ref_read_check('wiki-table', s['text'], info, {}, 'tostring(wiki-table)')
        rec.log('ok')

    def ev_dat(self, node, slot, target, extents):
        rec = self.rec
        info = self.slots.get((node, slot))
        if info is None or info['kind'] != 'ctx':
            return rec.log('noop')
        p = self.path(target)
        r = self.send(node, {'op': 'dat_write', 'slot': slot, 'path': p, 'extents': bool(extents)})
        cs = info['fca'].concepts()
        want = sorted(tuple(bits(e if extents else i)) for e, i in cs)
        ok = r['ok']
        got = got2 = None
        if ok:
            with open(p, encoding='ascii', newline='') as fh:
                got = sorted(refcodec.read_index_rows(fh.read()))
            r2 = self.send(node, {'op': 'dat_read', 'path': p})
            got2 = sorted(tuple(x) for x in r2.get('rows', [])) if r2['ok'] else r2
        rec.check('C12.dat_members', ok and got == want,
                  lambda: f'concept .dat file lists {got} expected {want} ({"extents" if extents else "intents"}) {r}')
        rec.check('C12.dat_members', ok and got2 == want, lambda: f'read_concepts_dat gives {got2} expected {want}')
        self.files[target] = {'form': 'dat', 'li': info['li'], 'fca': info['fca'], 'permuted': False, 'has_lat': False}
        rec.log('ok')


def run_one(arg):
    rec = core.Recorder(arg['plan'], arg['props'], arg.get('known'))
    try:
        Storage(arg['plan'], rec).run()
        return rec.result()
    except core.Violation as v:
        return rec.result(v)
    except core.INTERPRETATION_ERRORS as e:
        if not rec.props:
            raise
        return rec.result(core.uninterpretable(rec, e))
