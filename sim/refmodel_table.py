"""Ordered-table reference model for ``concepts.Definition`` (C13, C14).

Two Python lists and a set of cells.  Written from the docstrings and
DESIGN.md Appendix A; shares no code with the library.  Every operation either
returns its return value (after mutating the model) or raises ``Rejected``
*before* touching the model.
"""


class Rejected(Exception):
    """The model says this call must raise and change nothing."""


def extend(lst, names):
    for n in names:
        if n not in lst:
            lst.append(n)


class Table:

    def __init__(self, objs=(), props=(), cells=()):
        self.objs = list(objs)
        self.props = list(props)
        self.cells = set(cells)

    @classmethod
    def fromtriple(cls, objs, props, bools):
        objs, props = list(objs), list(props)
        if len(set(objs)) != len(objs) or len(set(props)) != len(props):
            raise Rejected('duplicate')
        cells = {(o, p) for o, row in zip(objs, bools)
                 for p, b in zip(props, row) if b}
        return cls(objs, props, cells)

    def copy(self):
        return Table(self.objs, self.props, self.cells)

    def triple(self):
        return (tuple(self.objs), tuple(self.props),
                [tuple((o, p) in self.cells for p in self.props) for o in self.objs])

    def key(self):
        return (tuple(self.objs), tuple(self.props), tuple(sorted(self.cells)))

    # -- in-place edits -------------------------------------------------

    def setitem(self, o, p, v):
        extend(self.objs, [o])
        extend(self.props, [p])
        if v:
            self.cells.add((o, p))
        else:
            self.cells.discard((o, p))

    def add_object(self, o, props):
        extend(self.objs, [o])
        extend(self.props, props)
        self.cells.update((o, p) for p in props)

    def add_property(self, p, objs):
        extend(self.props, [p])
        extend(self.objs, objs)
        self.cells.update((o, p) for o in objs)

    def set_object(self, o, props):
        self.add_object(o, props)
        keep = set(props)
        self.cells = {(oo, p) for (oo, p) in self.cells if oo != o or p in keep}

    def set_property(self, p, objs):
        self.add_property(p, objs)
        keep = set(objs)
        self.cells = {(o, pp) for (o, pp) in self.cells if pp != p or o in keep}

    def remove_object(self, o):
        if o not in self.objs:
            raise Rejected('unknown object')
        self.objs.remove(o)
        self.cells = {c for c in self.cells if c[0] != o}

    def remove_property(self, p):
        if p not in self.props:
            raise Rejected('unknown property')
        self.props.remove(p)
        self.cells = {c for c in self.cells if c[1] != p}

    def rename_object(self, old, new):
        if new in self.objs or old not in self.objs:
            raise Rejected('rename')
        self.objs[self.objs.index(old)] = new
        self.cells = {((new if o == old else o), p) for (o, p) in self.cells}

    def rename_property(self, old, new):
        if new in self.props or old not in self.props:
            raise Rejected('rename')
        self.props[self.props.index(old)] = new
        self.cells = {(o, (new if p == old else p)) for (o, p) in self.cells}

    def move_object(self, o, i):
        if o not in self.objs:
            raise Rejected('unknown object')
        self.objs.remove(o)
        self.objs.insert(i, o)

    def move_property(self, p, i):
        if p not in self.props:
            raise Rejected('unknown property')
        self.props.remove(p)
        self.props.insert(i, p)

    def remove_empty_objects(self):
        used = {o for o, _ in self.cells}
        gone = [o for o in self.objs if o not in used]
        self.objs = [o for o in self.objs if o in used]
        return gone

    def remove_empty_properties(self):
        used = {p for _, p in self.cells}
        gone = [p for p in self.props if p not in used]
        self.props = [p for p in self.props if p in used]
        return gone

    def conflicts(self, other):
        so, sp = set(other.objs), set(other.props)
        return [(o, p) for o in self.objs if o in so for p in self.props if p in sp
                if ((o, p) in self.cells) != ((o, p) in other.cells)]

    def union_update(self, other, ignore):
        if not ignore and self.conflicts(other):
            raise Rejected('conflict')
        other = other.copy()  # other may be self
        extend(self.objs, other.objs)
        extend(self.props, other.props)
        self.cells |= other.cells

    def intersection_update(self, other, ignore):
        if not ignore and self.conflicts(other):
            raise Rejected('conflict')
        other = other.copy()
        self.objs = [o for o in self.objs if o in other.objs]
        self.props = [p for p in self.props if p in other.props]
        self.cells &= other.cells

    # -- derived tables -------------------------------------------------

    def union(self, other, ignore):
        res = self.copy()
        res.union_update(other, ignore)
        return res

    def intersection(self, other, ignore):
        res = self.copy()
        res.intersection_update(other, ignore)
        return res

    def transposed(self):
        return Table(self.props, self.objs, {(p, o) for (o, p) in self.cells})

    def inverted(self):
        return Table(self.objs, self.props,
                     {(o, p) for o in self.objs for p in self.props
                      if (o, p) not in self.cells})

    def take(self, objs, props, reorder):
        if objs and any(o not in self.objs for o in objs):
            raise Rejected('unknown object in take')
        if props and any(p not in self.props for p in props):
            raise Rejected('unknown property in take')

        def axis(own, given):
            if given is None:
                return list(own)
            if reorder:
                res = []
                extend(res, given)
                return res
            return [x for x in own if x in given]

        o2, p2 = axis(self.objs, objs), axis(self.props, props)
        return Table(o2, p2, {(o, p) for o in o2 for p in p2 if (o, p) in self.cells})

    def context_valid(self):
        return (bool(self.objs) and bool(self.props)
                and not (set(self.objs) & set(self.props)))
