#!/venv/bin/python
"""Regenerate MANIFEST.json from the tables below (keeps it valid at all times)."""
import json
import os
import sys

HERE = os.path.dirname(os.path.dirname(os.path.abspath(__file__)))

CLAIMED = {
    'C01': ('dsim-live', 'World L: histories over several live contexts sharing label tuples, same-process/foreign/colliding unpickle, GC, set-order seam; Galois model re-evaluated for every live context after every event',
            'deterministic simulation: seeded event histories with unpickle/id-collision fault injection vs brute-force Galois model'),
    'C02': ('dsim-live', 'World L: lookups before/after lazy forcing, on lattices from every construction path, identity ledger over the whole history',
            'deterministic simulation: seeded lookup/persistence histories, identity ledger + least-concept model oracle'),
    'C05': ('dsim-live', 'World L: Lindig generator advanced one record per event under a seeded scheduler (second consumers, close/abandon), neighbor links of lattices from every path, Context.neighbors incl. >64-wide tables',
            'deterministic simulation: seeded scheduling of the suspended Lindig generator + cover-relation model oracle'),
    'C09': ('dsim-live', 'World L: many suspended upset/downset/union traversals per lattice stepped by a seeded scheduler, cancellation, controlled seed-set iteration order, bounded termination',
            'deterministic simulation: seeded interleaving/cancellation of traversal generators, prefix + filter/ideal model oracle, bounded liveness'),
    'C10': ('dsim-live', 'World L: many lattices per process through every construction path; labels of all live lattices re-audited after every event',
            'deterministic simulation: seeded construction/persistence histories, all-live-lattices label audit vs model'),
    'C11': ('dsim-storage', 'World S: disk + peer interpreters (other hash seeds, restarts), dict/JSON/literal/pickle forms, stored-order permutation with raw=True, lattice absent/present/lazy, sizes to thousands of concepts',
            'deterministic simulation: sequentialised multi-process storage histories with restart/hash-seed/permutation faults; documented-encoding model + battery differential'),
    'C12': ('dsim-storage', 'World S: text formats to string/file across nodes, encodings, dialects, path overwrite; independent reference reader/writer',
            'deterministic simulation: seeded write/read/overwrite/restart histories across peer processes vs independent reference codecs'),
    'C13': ('dsim-defs', 'World D: seeded edit histories of several live definitions; every live definition compared with an ordered-table model after every event',
            'deterministic simulation: seeded edit histories of several live definitions incl. rejected calls vs ordered-table model'),
    'C14': ('dsim-defs', 'World D: derive-then-edit histories; non-interference ledger over all live definitions; Context<->Definition conversions',
            'deterministic simulation: derive-then-edit histories vs ordered-table model, aliasing audit of all live objects after every event'),
    'C17': ('dsim-xproc', 'World X: the same plans executed in several fresh interpreters with different PYTHONHASHSEED (ASLR on and off, heap layout perturbed); transcripts must be byte-identical; one listed known finding (known_findings.json, S5) is matched outcome by outcome',
            'deterministic simulation: identical seeded histories replayed across interpreter processes/hash seeds, transcript differential'),
}

NOT_APPLICABLE = {
    'C03': 'pure function of the table (the constructor drains the generator at once and stores immutable ints): no schedule, state, fault or I/O for a simulator to own; completeness of Lindig is an input-space question',
    'C04': 'the FCbO generators keep private stacks over immutable vectors; interleaving or cancelling them cannot change their output: input-space question only',
    'C06': 'ranks are assigned once in the constructor; pure function of the table (the stored-order/raw loader part is decided under C11)',
    'C07': 'bit operations on stored extents plus one closure call; no state or laziness of its own; algebraic laws are an input-space question',
    'C08': 'pure predicates over two immutable ints; nothing a schedule, seed, fault or history can reach',
    'C15': 'metamorphic relation between two pure computations on two inputs; no schedule, state or fault in it',
    'C16': 'pure classification of column pairs; class table built once at import',
    'C18': 'lazy filter over a deterministic subset enumeration with no state of its own',
    'C19': 'validation chain evaluated before any object exists: pure function of the arguments',
    'C20': 'pure rendering of stored links and labels (whose history-independence is C05/C10)',
}

ENGINES = {
    'dsim-defs': ('sim/world_defs.py', 'definitions world: seeded plans, ordered-table model, fork-per-run executor'),
    'dsim-live': ('sim/world_live.py', 'live-objects world: seeded scheduler over suspended library generators, persistence disturbances, FCA model'),
    'dsim-storage': ('sim/world_storage.py', 'storage world: run-private disk, peer interpreter processes over JSON-lines pipes, reference codecs'),
    'dsim-xproc': ('sim/world_xproc.py', 'cross-process differential: plans of the other worlds executed under several real hash seeds'),
}


def main():
    sys.path.insert(0, HERE)
    from sim import specs
    registered = sorted(specs.SPECS)
    checks = []
    for p in registered:
        eng, text, tech = CLAIMED[p]
        checks.append({
            'property_id': p,
            'quick_cmd': f'/venv/bin/python checks/run.py {p} --tier quick',
            'thorough_cmd': f'/venv/bin/python checks/run.py {p} --tier thorough',
            'evidence_file': f'evidence/{p}.json',
            'replay_cmd_template': '/venv/bin/python checks/run.py --replay {path}',
            'engine': eng,
            'level_claimed': {'category': 'exploration', 'text': text, 'design_ref': f'DESIGN.md §5 {p}'},
            'level_note': 'trusted: the reference models/codecs under sim/ (self-tested by selftest/selftest.py), CPython, bitsets; seeded sampling of schedules, faults and inputs - evidence, not proof',
            'technique': tech})
    na = [{'property_id': p, 'reason': r} for p, r in sorted(NOT_APPLICABLE.items())]
    for p in sorted(CLAIMED):
        if p not in registered:
            na.append({'property_id': p, 'reason': 'claimed in DESIGN.md; its check is not registered yet in this commit (under construction), so it is listed here for now'})
    engines = []
    for name, (path, kind) in ENGINES.items():
        served = [p for p in registered if CLAIMED[p][0] == name]
        if served:
            engines.append({'name': name, 'path': path, 'serves_properties': served, 'kind_free_text': kind})
    man = {
        'version': 1,
        'setup_cmd': '/venv/bin/python -m compileall -q sim checks selftest tools && /venv/bin/python selftest/selftest.py --quick',
        'hooks': {
            'guard': 'XFLR6_CONCEPTS_VERIF',
            'enable': 'no source hooks exist in /repo: every seam is installed by the harness at run time (module-global shadowing of `set`, a pickle.Unpickler subclass, real peer interpreters); checks import concepts from /repo (or VERIF_REPO) via sys.path and export XFLR6_CONCEPTS_VERIF=1 only for uniformity',
            'baseline_off_cmd': 'cd /repo && /venv/bin/python -m pytest -ra -q -p no:cacheprovider --timeout=900 --continue-on-collection-errors',
            'source_commits': [],
            'add_only': True},
        'engines': engines,
        'checks': checks,
        'not_applicable': na,
        'notes': 'DESIGN.md explains the approach; known_findings.json lists repaired (fixed:) and open findings; seeded/ holds confirmed breaking changes with which checks catch them.'}
    with open(os.path.join(HERE, 'MANIFEST.json'), 'w', encoding='utf-8') as f:
        json.dump(man, f, indent=1)
        f.write('\n')
    print('MANIFEST.json:', len(checks), 'checks,', len(na), 'not applicable')


if __name__ == '__main__':
    main()
