"""Per-property check specifications (world, budgets, trusted base)."""

REAL = ['concepts (all modules, unmodified, imported from the tree under test)', 'bitsets', 'pickle',
        'json', 'csv', 'ast', 'the filesystem (run-private directory)', 'interpreter processes (peers)']
STUB = ['SimSet (iteration order of sets created through the module-global name `set`)',
        'id-mapping Unpickler (integers naming bitset classes only)', 'the scheduler / plan generator']

def _live(prop, quick, thorough, assumptions):
    return {'world': 'L', 'runs': {'quick': quick, 'thorough': thorough}, 'gen': {'focus': prop},
            'stream': prop, 'real': REAL, 'stub': STUB,
            'assumptions': ['brute-force FCA model (sim/refmodel_fca.py) is the specification',
                            'the input dimension (tables) is only sampled by the seeded workload generator'] + assumptions}


SPECS = {
    'C01': _live('C01', 3000, 60000, ['behaviour for unknown labels or mixed object/property arguments is unspecified and not generated']),
    'C02': _live('C02', 2500, 40000, ['negative indexes, slices and mixed-kind keys are unspecified and not generated']),
    'C05': _live('C05', 2500, 50000, ['the order of the list returned by Context.neighbors() is unspecified and not asserted']),
    'C09': _live('C09', 3000, 60000, ['upset_generalization is documented experimental and not checked']),
    'C10': _live('C10', 2500, 50000, ['order inside concept.atoms and the layout of str() are not asserted']),
    'C11': {'world': 'S', 'runs': {'quick': 1200, 'thorough': 10000}, 'gen': {'focus': 'C11'}, 'stream': 'C11',
            'timeout': 400, 'real': REAL, 'stub': STUB,
            'assumptions': ['FCA model + documented dict encoding (sim/refmodel_fca.py) are the specification',
                            'indistinguishable = equal transcripts of the query battery (sim/battery.py)',
                            'raw=False on permuted storage and extra keys are unspecified; pickle bytes are not compared']},
    'C12': {'world': 'S', 'runs': {'quick': 3000, 'thorough': 40000}, 'gen': {'focus': 'C12'}, 'stream': 'C12',
            'timeout': 300, 'real': REAL, 'stub': STUB,
            'assumptions': ['reference codecs (sim/refcodec.py) written from the format descriptions are the specification of the layouts',
                            'labels outside each format\'s representable set and fromfile(encoding=None) under non-UTF-8 locales are unspecified']},
    'C13': {'world': 'D', 'runs': {'quick': 12000, 'thorough': 200000}, 'real': REAL, 'stub': STUB,
            'assumptions': ['ordered-table reference model (sim/refmodel_table.py) is the specification',
                            'move_* with an index outside 0..len-1 and one-shot iterator arguments are unspecified and not generated',
                            'any exception class counts as "raises"']},
    'C14': {'world': 'D', 'runs': {'quick': 12000, 'thorough': 200000}, 'real': REAL, 'stub': STUB,
            'assumptions': ['ordered-table reference model (sim/refmodel_table.py) is the specification',
                            'rejection of Context(*d) for invalid triples is not asserted here (C19 is not claimed)']},
    'C17': {'world': 'X', 'runs': {'quick': 500, 'thorough': 3000}, 'k': {'quick': 4, 'thorough': 8},
            'real': REAL + ['PYTHONHASHSEED of every interpreter', 'ASLR (on, and off via setarch -R when permitted)'],
            'stub': ['the scheduler / plan generator (the set-order seam is switched off in this world)'],
            'assumptions': ['memory addresses are masked by the regex 0x[0-9a-f]+ as the statement allows; pickle bytes are not compared',
                            'a transcript difference between two runs under the same hash seed is a HARNESS-ERROR, never a violation']},
}
