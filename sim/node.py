"""A *node* of World S: one interpreter process holding named slots with library
objects and executing single commands (dicts) against the real library.

The local node runs in the simulator's own process image; peers run the same
class in separate interpreters (``sim/peer.py``) started with another
``PYTHONHASHSEED``.  All library interaction of World S happens in here; the
scheduler only sees canonical, JSON-able replies.
"""

import io
import os
import pathlib
import pickle

from . import battery
from .core import call, scramble


def _jsonable(x):
    if isinstance(x, (list, tuple)):
        return [_jsonable(i) for i in x]
    if isinstance(x, dict):
        return {str(k): _jsonable(v) for k, v in x.items()}
    if isinstance(x, (str, int, float, bool)) or x is None:
        return x
    return repr(x)


def _tupled(x):
    """JSON lists back to the tuples the dict form uses."""
    if isinstance(x, list):
        return tuple(_tupled(i) for i in x)
    return x


def _err(out):
    return {'ok': False, 'err': type(out.exc).__name__, 'msg': str(out.exc)[:300]}


def _kwargs(kw):
    """Markers for arguments that JSON cannot carry (csv dialects given as class or instance)."""
    import csv
    kw = dict(kw or {})
    d = kw.get('dialect')
    if d == '@excel_tab':
        kw['dialect'] = csv.excel_tab
    elif d == '@excel_tab()':
        kw['dialect'] = csv.excel_tab()
    elif d == '@excel':
        kw['dialect'] = csv.excel
    elif d == '@unix()':
        kw['dialect'] = csv.unix_dialect()
    return kw


class Node:

    def __init__(self):
        import concepts
        self.C = concepts
        self.slots = {}

    # every handler returns a JSON-able dict with at least 'ok'
    def handle(self, cmd):
        fn = getattr(self, 'do_' + cmd['op'])
        return fn(cmd)

    def _path(self, cmd):
        p = cmd['path']
        kind = cmd.get('pathkind', 'str')
        if kind == 'bytes':
            return os.fsencode(p)
        if kind == 'pathlike':
            return pathlib.Path(p)
        return p

    def _store(self, cmd, out):
        if not out.ok:
            self.slots.pop(cmd['dst'], None)
            return _err(out)
        self.slots[cmd['dst']] = out.value
        return {'ok': True}

    def do_ping(self, cmd):
        import sys
        return {'ok': True, 'hashseed': os.environ.get('PYTHONHASHSEED'), 'pid_parity': 0,
                'flags': sys.flags.hash_randomization}

    def do_new(self, cmd):
        out = call(self.C.Context, cmd['objects'], cmd['properties'],
                   [tuple(bool(b) for b in r) for r in cmd['bools']])
        return self._store(cmd, out)

    def do_drop(self, cmd):
        self.slots.pop(cmd['slot'], None)
        return {'ok': True}

    def do_force(self, cmd):
        ctx = self.slots[cmd['slot']]
        out = call(lambda: len(ctx.lattice))
        return {'ok': True, 'n': out.value} if out.ok else _err(out)

    def do_triple(self, cmd):
        x = self.slots[cmd['slot']]
        def go():
            b = x.bools
            r = {'objects': list(x.objects), 'properties': list(x.properties),
                 'bools': [[int(v) for v in row] for row in b]}
            scramble(b)
            return r
        out = call(go)
        return {'ok': True, **out.value} if out.ok else _err(out)

    @staticmethod
    def _nondefault(cmd, defaults):
        """Only the arguments that differ from the documented defaults are passed,
        so that the defaults themselves are exercised."""
        return {k: cmd[k] for k, v in defaults.items() if k in cmd and cmd[k] != v}

    def do_todict(self, cmd):
        ctx = self.slots[cmd['slot']]
        out = call(ctx.todict, **self._nondefault(cmd, {'ignore_lattice': False}))
        if not out.ok:
            return _err(out)
        d = out.value
        reply = {'ok': True, 'dict': _jsonable(d), 'keys': list(d),
                 'types': {k: type(v).__name__ for k, v in d.items()}}
        scramble(d)   # the caller owns the returned dict and may edit it in place
        return reply

    def do_fromdict(self, cmd):
        if cmd.get('as_lists'):   # what json.load would hand over
            d = cmd['dict']
        else:
            d = {k: _tupled(v) if k != 'context' and k != 'lattice' else [_tupled(i) for i in v]
                 for k, v in cmd['dict'].items()}
        out = call(self.C.Context.fromdict, d,
                   **self._nondefault(cmd, {'ignore_lattice': False, 'require_lattice': False, 'raw': False}))
        return self._store(cmd, out)

    HEADER = '%container 1: a caller-owned line before the JSON document\n'

    def do_tojson(self, cmd):
        ctx = self.slots[cmd['slot']]
        kw = self._nondefault(cmd, {'encoding': 'utf-8', 'indent': None, 'sort_keys': True, 'ignore_lattice': False})
        enc = cmd.get('encoding', 'utf-8')
        if cmd.get('pathkind') == 'fileobj':
            def go():
                with open(cmd['path'], 'w', encoding=enc) as f:
                    ctx.tojson(f, **kw)
            out = call(go)
        elif cmd.get('pathkind') == 'fileobj_pos':
            # the caller's file object is positioned behind something the caller wrote itself
            def go():
                with open(cmd['path'], 'w', encoding=enc) as f:
                    f.write(self.HEADER)
                    ctx.tojson(f, **kw)
                with open(cmd['path'], encoding=enc) as f:
                    text = f.read()
                if not text.startswith(self.HEADER):
                    raise AssertionError('tojson(file object) did not write at the position of the caller\'s file object: '
                                         + repr(text[:80]))
                with open(cmd['path'], 'w', encoding=enc) as f:
                    f.write(text[len(self.HEADER):])
            out = call(go)
        else:
            out = call(ctx.tojson, self._path(cmd), **kw)
        return {'ok': True} if out.ok else _err(out)

    def do_fromjson(self, cmd):
        kw = self._nondefault(cmd, {'encoding': 'utf-8', 'ignore_lattice': False, 'require_lattice': False, 'raw': False})
        enc = cmd.get('encoding', 'utf-8')
        if cmd.get('pathkind') == 'fileobj':
            def go():
                with open(cmd['path'], encoding=enc) as f:
                    return self.C.Context.fromjson(f, **kw)
            out = call(go)
        elif cmd.get('pathkind') == 'fileobj_pos':
            # ... or behind something the caller has already consumed
            def go():
                box = cmd['path'] + '.container'
                try:
                    with open(cmd['path'], encoding=enc) as f:
                        text = f.read()
                    with open(box, 'w', encoding=enc) as f:
                        f.write(self.HEADER + text)
                    with open(box, encoding=enc) as f:
                        f.readline()
                        return self.C.Context.fromjson(f, **kw)
                finally:
                    if os.path.exists(box):
                        os.unlink(box)
            out = call(go)
        else:
            out = call(self.C.Context.fromjson, self._path(cmd), **kw)
        return self._store(cmd, out)

    def do_fmt_subclass(self, cmd):
        """User code derives its own format from a shipped one (the metaclass registers it by name);
        the shipped formats and the suffix inference must go on working as before."""
        F = self.C.formats
        self._nsub = getattr(self, '_nsub', 0) + 1
        name = f'My{cmd["which"].title().replace("_", "")}{self._nsub}'

        def go():
            if cmd['which'] == 'csv_tab':
                return type(name, (F.Csv,), {'dialect': 'excel-tab'})
            if cmd['which'] == 'cxt_alt':
                sym = {False: '-', True: '+'}
                return type(name, (F.Cxt,), {'symbols': sym, 'values': {v: k for k, v in sym.items()}})
            if cmd['which'] == 'table_alt':
                return type(name, (F.Table,), {'dumps_rstrip': False, 'encoding': 'latin-1'})
            return type(name, (F.PythonLiteral,), {'encoding': 'utf-16'})
        out = call(go)
        return {'ok': True, 'name': out.value.name} if out.ok else _err(out)

    def do_tofile(self, cmd):
        x = self.slots[cmd['slot']]
        kw = _kwargs(cmd.get('kwargs', {}))
        kw.update(self._nondefault(cmd, {'frmat': 'cxt', 'encoding': 'utf-8'}))
        out = call(x.tofile, self._path(cmd), **kw)
        return {'ok': True} if out.ok else _err(out)

    def do_fromfile(self, cmd):
        kw = _kwargs(cmd.get('kwargs', {}))
        via = cmd.get('via', 'fromfile')
        path = self._path(cmd)
        enc = cmd.get('encoding')
        if via == 'load':
            out = call(self.C.load, path, encoding=enc or 'utf-8', frmat=cmd.get('frmat'))
        elif via == 'load_csv':
            out = call(self.C.load_csv, path, encoding=enc or 'utf-8', **kw)
        elif via == 'load_cxt':
            out = call(self.C.load_cxt, path, encoding=enc)
        elif via == 'definition':
            out = call(self.C.Definition.fromfile, path, frmat=cmd['frmat'], encoding=enc, **kw)
        else:
            out = call(self.C.Context.fromfile, path, frmat=cmd.get('frmat'), encoding=enc, **kw)
        return self._store(cmd, out)

    def do_tostring(self, cmd):
        x = self.slots[cmd['slot']]
        out = call(x.tostring, cmd['frmat'], **_kwargs(cmd.get('kwargs', {})))
        return {'ok': True, 'text': out.value} if out.ok else _err(out)

    def do_fromstring(self, cmd):
        via = cmd.get('via', 'fromstring')
        if via == 'make_context':
            out = call(self.C.make_context, cmd['text'], cmd['frmat'])
        else:
            out = call(self.C.Context.fromstring, cmd['text'], cmd['frmat'], **_kwargs(cmd.get('kwargs', {})))
        return self._store(cmd, out)

    def do_definition(self, cmd):
        out = call(self.slots[cmd['slot']].definition)
        return self._store(cmd, out)

    def do_pickle_dump(self, cmd):
        x = self.slots[cmd['slot']]
        if cmd.get('what') == 'lattice' and not isinstance(x, self.C.lattices.Lattice):
            x = x.lattice       # a slot may also hold a (loaded) lattice itself: second-generation pickles

        def go():
            proto = cmd.get('protocol', 4)
            if proto == 6:      # protocol 5 with out-of-band buffers kept in side files
                buffers = []
                data = pickle.dumps(x, 5, buffer_callback=buffers.append)
                for k, b in enumerate(buffers):
                    with open(f"{cmd['path']}.buf{k}", 'wb') as f:
                        f.write(b.raw())
                with open(cmd['path'] + '.nbuf', 'w') as f:
                    f.write(str(len(buffers)))
            else:
                data = pickle.dumps(x, proto)
                if os.path.exists(cmd['path'] + '.nbuf'):
                    os.unlink(cmd['path'] + '.nbuf')
            with open(cmd['path'], 'wb') as f:
                f.write(data)
            return len(data)
        out = call(go)
        if not out.ok:
            n = call(lambda: len(x))
            r = _err(out)
            r['n_concepts'] = n.value if n.ok else None
            return r
        return {'ok': True, 'bytes': out.value}

    def do_pickle_load(self, cmd):
        def go():
            buffers = None
            if os.path.exists(cmd['path'] + '.nbuf'):
                with open(cmd['path'] + '.nbuf') as f:
                    n = int(f.read())
                buffers = []
                for k in range(n):
                    with open(f"{cmd['path']}.buf{k}", 'rb') as f:
                        buffers.append(f.read())
            with open(cmd['path'], 'rb') as f:
                return pickle.load(f, buffers=buffers)
        out = call(go)
        if out.ok and cmd.get('expect') == 'lattice' and not isinstance(out.value, self.C.lattices.Lattice):
            return {'ok': False, 'err': 'TypeError', 'msg': f'unpickled a {type(out.value).__name__}'}
        return self._store(cmd, out)

    def do_has_lattice(self, cmd):
        ctx = self.slots[cmd['slot']]
        out = call(lambda: 'lattice' in ctx.todict(ignore_lattice=None))
        return {'ok': True, 'has': out.value} if out.ok else _err(out)

    def do_eq(self, cmd):
        a, b = self.slots[cmd['a']], self.slots[cmd['b']]
        out = call(lambda: [a == b, a != b])
        return {'ok': True, 'eq': out.value[0], 'ne': out.value[1]} if out.ok else _err(out)

    def _lines(self, x, cmd):
        limit, heavy = cmd.get('limit', 60), cmd.get('heavy', True)
        if isinstance(x, self.C.lattices.Lattice):
            return battery.lattice_lines(x, limit=limit, heavy=heavy)
        return battery.full(x, limit=limit, heavy=heavy, text_dumps=cmd.get('text_dumps', True))

    def do_battery(self, cmd):
        import hashlib
        lines = self._lines(self.slots[cmd['slot']], cmd)
        r = {'ok': True, 'digest': hashlib.sha256('\n'.join(lines).encode()).hexdigest(), 'n': len(lines)}
        if cmd.get('want_lines'):
            r['lines'] = lines
        return r

    def do_battery_cmp(self, cmd):
        """Battery of the slot vs the battery of a context recomputed from scratch
        on this node from the triple the scheduler's model says it must equal."""
        x = self.slots[cmd['slot']]
        fresh = call(self.C.Context, cmd['objects'], cmd['properties'],
                     [tuple(bool(b) for b in r) for r in cmd['bools']])
        if not fresh.ok:
            return _err(fresh)
        if isinstance(x, self.C.lattices.Lattice):
            a = self._lines(x, cmd)
            b = self._lines(fresh.value.lattice, cmd)
            eq = None
        else:
            e = call(lambda: [x == fresh.value, x != fresh.value, fresh.value == x])
            eq = e.value if e.ok else [repr(e.exc)]
            a = self._lines(x, cmd)
            b = self._lines(fresh.value, cmd)
        import hashlib
        return {'ok': True, 'eq': eq, 'same': a == b, 'diff': battery.first_diff(a, b), 'n': len(a),
                'digest': hashlib.sha256('\n'.join(a).encode()).hexdigest()}

    def do_dat_write(self, cmd):
        ctx = self.slots[cmd['slot']]

        def go():
            cl = self.C.algorithms.get_concepts(ctx)
            cl.tofile(cmd['path'], extents=cmd.get('extents', False))
            return len(cl)
        out = call(go)
        return {'ok': True, 'n': out.value} if out.ok else _err(out)

    def do_dat_read(self, cmd):
        out = call(lambda: [list(t) for t in self.C.formats.read_concepts_dat(cmd['path'])])
        return {'ok': True, 'rows': out.value} if out.ok else _err(out)
