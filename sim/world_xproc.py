"""World X — cross-process differential (C17).

The *same* plans (from worlds D, L and peer-less S, with the query battery as
query set) are executed in K fresh interpreter processes with different real
``PYTHONHASHSEED`` values — object addresses differ between them as ASLR
provides, and one execution runs with ASLR off when ``setarch -R`` is
permitted.  Oracle: event-by-event transcripts are byte-identical.
"""

import json
import os
import subprocess
import sys
import time

from . import core
from . import driver

STREAMS = [('D', {}, 5), ('L', {'focus': 'C09'}, 2), ('L', {'focus': 'C10'}, 2), ('L', {'focus': 'C02'}, 1),
           ('S', {'focus': 'C11'}, 2), ('S', {'focus': 'C12'}, 2)]


def corpus(seed, n, tier):
    """The n plans of this batch (generated in-process: cheap, deterministic)."""
    plans = []
    total = sum(w for _, _, w in STREAMS)
    i = 0
    while len(plans) < n:
        for world, gen, w in STREAMS:
            for _ in range(w):
                if len(plans) >= n:
                    break
                mod = driver.world_module(world)
                rng = core.rng_for(seed, 'X' + world + gen.get('focus', ''), i)
                plan = mod.generate(rng, seed, i, tier, xmode=True, **gen)
                plan['keep_lines'] = False
                plan['xid'] = len(plans)
                plans.append(plan)
                i += 1
    del total
    return plans


def heap_noise(level):
    """Heap-layout perturbation (a fault kind of World X): before a plan runs in its forked child, allocate
    objects of many sizes and free an irregular part of them, so that the allocator's free lists - and with
    them which freed address the next Context, Lattice or Concept is given - differ from the unperturbed
    execution.  Results must not depend on it; a library that keys state by id() does."""
    if not level:
        return None
    import random
    r = random.Random(level)
    junk = []
    for _ in range(400 * level):
        k = r.randrange(6)
        if k == 0:
            junk.append([None] * r.randrange(1, 60))
        elif k == 1:
            junk.append({i: None for i in range(r.randrange(1, 30))})
        elif k == 2:
            junk.append(type('J', (), {})())
        elif k == 3:
            junk.append(bytearray(r.randrange(16, 600)))
        elif k == 4:
            junk.append(tuple(range(r.randrange(1, 40))))
        else:
            junk.append({'a', r.random()})
    keep = [x for x in junk if r.random() < 0.4]
    del junk
    return keep


def run_plan_noisy(arg):
    keep = heap_noise(arg.pop('heap_noise', 0))
    try:
        return driver.run_plan(arg)
    finally:
        del keep


def exec_plans_stdin():
    """(internal) execute the plans given on stdin under this interpreter's hash seed."""
    core.use_repo()
    payload = json.loads(sys.stdin.read())
    out = []
    for plan in payload['plans']:
        plan = dict(plan, keep_lines=payload.get('lines', False))
        try:
            res = core.isolated_call(run_plan_noisy, {'plan': plan, 'props': payload.get('props', []), 'known': [],
                                                      'heap_noise': payload.get('heap_noise', 0)}, timeout=300)
            item = {'digest': res['digest'], 'n_events': res['n_events'], 'sched': res['sched'],
                    'side': res.get('side', [])}
            if payload.get('lines'):
                item['lines'] = res.get('lines', [])
        except core.HarnessError as e:
            item = {'harness_error': str(e)[:1500]}
        out.append(item)
    print('RESULT ' + json.dumps(out))
    return 0


def spawn(plans, hashseed, lines=False, setarch=False, noise=0):
    env = dict(os.environ)
    env['PYTHONHASHSEED'] = str(hashseed)
    env['PYTHONDONTWRITEBYTECODE'] = '1'
    env[core.GUARD] = '1'
    cmd = [core.PYTHON, os.path.join(core.VERIF_DIR, 'checks', 'run.py'), '--exec-plans', '-']
    if setarch:
        cmd = ['setarch', 'x86_64', '-R'] + cmd
    p = subprocess.Popen(cmd, stdin=subprocess.PIPE, stdout=subprocess.PIPE, stderr=subprocess.PIPE,
                         env=env, cwd=core.VERIF_DIR)
    p.stdin.write(json.dumps({'plans': plans, 'lines': lines, 'props': ['C17'], 'heap_noise': noise}).encode())
    p.stdin.close()
    return p


def collect(p, timeout=1800):
    try:
        out = p.stdout.read()
        err = p.stderr.read()
        p.wait(timeout=timeout)
    except subprocess.TimeoutExpired:
        p.kill()
        raise core.HarnessError('cross-process execution timed out')
    if p.returncode != 0:
        raise core.HarnessError(f'cross-process execution failed: {err.decode()[-1500:]}')
    line = [l for l in out.decode().splitlines() if l.startswith('RESULT ')]
    if not line:
        raise core.HarnessError('no RESULT from cross-process execution')
    res = json.loads(line[-1][7:])
    for r in res:
        if 'harness_error' in r:
            raise core.HarnessError(r['harness_error'])
    return res


def run_under(plans, hashseed, lines=False, setarch=False, parallel=4, noise=0):
    """Execute all plans under one hash seed, split over ``parallel`` interpreters."""
    chunks = [plans[i::parallel] for i in range(parallel)]
    procs = [(c, spawn(c, hashseed, lines, setarch, noise)) for c in chunks if c]
    res = {}
    for c, p in procs:
        for plan, r in zip(c, collect(p)):
            res[plan['xid']] = r
    return [res[p['xid']] for p in plans]


def side_diff(a, b, known):
    """Compare the side channels of two executions entry by entry.

    Returns (unexcused, excused): ``unexcused`` is the first differing entry that no open known finding
    covers (or None), ``excused`` the list of known findings that explain the other differences."""
    excused = []
    if len(a) != len(b):
        return {'line': -1, 'a': f'<{len(a)} side entries>', 'b': f'<{len(b)} side entries>'}, excused
    for x, y in zip(a, b):
        if x == y:
            continue
        for k in known:
            m = k.get('match', {})
            if (x[:3] == y[:3] and x[1] == m.get('event') and x[2] == m.get('outcome')):
                excused.append(k)
                break
        else:
            return {'line': x[0], 'a': f'{x[0]} {x[1]} -> {x[2]} {x[3]}'[:600], 'b': f'{y[0]} {y[1]} -> {y[2]} {y[3]}'[:600]}, excused
    return None, excused


def differs(plan, seeds, setarch_flags=(False, False), noise=0):
    a = run_under([plan], seeds[0], lines=True, parallel=1, setarch=setarch_flags[0])[0]
    b = run_under([plan], seeds[1], lines=True, parallel=1, setarch=setarch_flags[1], noise=noise)[0]
    if a['digest'] == b['digest']:
        return side_diff(a.get('side', []), b.get('side', []), driver.open_known('C17'))[0]
    la, lb = a['lines'], b['lines']
    for k, (x, y) in enumerate(zip(la, lb)):
        if x != y:
            return {'line': k, 'a': x[:600], 'b': y[:600]}
    return {'line': min(len(la), len(lb)), 'a': f'<{len(la)} lines>', 'b': f'<{len(lb)} lines>'}


def minimise(plan, seeds, flags, budget_s=240, noise=0):
    t0 = time.monotonic()
    events = list(plan['events'])
    d = differs(plan, seeds, flags, noise)
    if d is None:
        return plan, None
    try:
        cut = int(d['a'].split(' ', 1)[0]) + 1
        if differs(dict(plan, events=events[:cut]), seeds, flags, noise):
            events = events[:cut]
    except ValueError:
        pass
    n = 2
    while len(events) >= 2 and time.monotonic() - t0 < budget_s:
        size = max(1, len(events) // n)
        reduced = False
        for start in range(0, len(events), size):
            cand = events[:start] + events[start + size:]
            if cand and differs(dict(plan, events=cand), seeds, flags, noise):
                events, reduced = cand, True
                n = max(n - 1, 2)
                break
            if time.monotonic() - t0 > budget_s:
                break
        if not reduced:
            if size == 1:
                break
            n = min(len(events), n * 2)
    small = dict(plan, events=events)
    return small, differs(small, seeds, flags, noise)


def replay(rp, path):
    d = None
    for _ in range(int(rp.get('attempts', 1))):    # address-dependent failures may need several process images
        d = differs(rp['plan'], rp['seeds'], tuple(rp.get('setarch', (False, False))), rp.get('noise', 0))
        if d is not None:
            break
    if d is not None:
        print(f'reproduced: transcripts under PYTHONHASHSEED={rp["seeds"][0]} and {rp["seeds"][1]} differ at line '
              f'{d["line"]}:\n  {d["a"]}\n  {d["b"]}')
        print(f'VIOLATION property=C17 replay={path}')
        return 1
    print('not reproduced (transcripts identical)')
    return 0


def explore(prop, tier, seed, spec):
    from . import seams
    rep = driver.Report(prop, tier, seed)
    n = int(os.environ.get('VERIF_RUNS') or spec['runs'][tier])
    k = spec['k'][tier]
    plans = corpus(seed, n, tier)
    rng = core.rng_for(seed, 'Xseeds', 0)
    seeds = [0, 1, 2] + [rng.randrange(3, 2 ** 32 - 1) for _ in range(max(0, k - 3))]
    seeds = seeds[:k]
    has_setarch = seams.setarch_available()
    # all executions run concurrently: K seeds + a repeat of the first (determinism precondition) + ASLR off
    # (hash seed, ASLR off, heap perturbation level)
    jobs = ([(hs, False, 0) for hs in seeds] + [(seeds[0], False, 1)]
            + ([(seeds[1], True, 2)] if has_setarch else [])
            + [(seeds[i % len(seeds)], False, 3 + i) for i in range(2 if tier == 'quick' else 4)])
    par = max(1, 16 // len(jobs))
    procs = []
    for hs, sa, noise in jobs:
        chunks = [plans[i::par] for i in range(par)]
        procs.append([(c, spawn(c, hs, False, sa, noise)) for c in chunks if c])
    table = []
    for pr in procs:
        res = {}
        for c, p in pr:
            for plan, r in zip(c, collect(p)):
                res[plan['xid']] = r
        table.append([res[p['xid']] for p in plans])
    base = table[0]
    known = driver.open_known('C17')
    exit_code, n_viol = 0, 0
    reported = 0
    distinct = set()
    for i, p in enumerate(plans):
        digs = [t[i]['digest'] for t in table]
        rep.runs += 1
        rep.events += base[i]['n_events'] * len(table)
        rep.evals += len(table) - 1
        if base[i]['n_events'] >= 3:
            distinct.add(base[i]['digest'])
        if len(rep.samples) < 2:
            rep.samples.append({'world': p['world'], 'config': p['config'], 'events': p['events'][:15],
                                'events_total': len(p['events']), 'executed_under_hashseeds': seeds,
                                'transcript_digest': base[i]['digest']})
        if len(set(digs)) == 1:
            # transcripts agree: the separately compared outcomes must agree too, or be a listed known finding
            j = None
            for jj in range(1, len(table)):
                bad, excused = side_diff(base[i].get('side', []), table[jj][i].get('side', []), known)
                for k in excused:
                    rep.known_hits[('C17', 'C17.transcripts_equal')] = k.get('what', '')
                    rep.probes['known_finding_differences_seen'] = rep.probes.get('known_finding_differences_seen', 0) + 1
                if bad is not None and j is None:
                    j = jj
            if j is None or reported >= 3:
                continue
        elif reported >= 3:
            continue
        else:
            j = next(j for j in range(1, len(table)) if digs[j] != digs[0])
        pair = [jobs[0][0], jobs[j][0]]
        flags = (jobs[0][1], jobs[j][1])
        noise = jobs[j][2]
        small, d = minimise(p, pair, flags, noise=noise)
        addr = pair[0] == pair[1]
        if d is None:
            # Same plan and code, yet the difference seen in the batch does not show again: it depends on the
            # address space (object addresses, id()-keyed containers, re-use of freed addresses) - the one input
            # the simulator does not own.  On the unchanged tree executions are exactly repeatable (selftest,
            # every batch so far), so this is attributed to the tree under test and reported, never dropped.
            addr = True
            small = p
            for _ in range(4):
                d = differs(p, pair, flags, noise)
                if d is not None:
                    break
        reported += 1
        n_viol += 1
        path = os.path.join(driver.replays_dir(), f'C17-{seed}-{p["xid"]}.json')
        with open(path, 'w', encoding='utf-8') as f:
            rp = {'kind': 'xproc', 'property': 'C17', 'oracle': 'C17.transcripts_equal', 'verif_seed': seed,
                  'run': p['xid'], 'seeds': pair, 'setarch': list(flags), 'noise': noise, 'plan': small,
                  'original_events': len(p['events']), 'minimised_events': len(small['events']),
                  'first_difference': d}
            if addr:
                rp.update(address_dependent=True, attempts=6,
                          reproduces=('the two executions differ only in their address space (same hash seed and/or a '
                                      'difference that does not show in every pair of processes); '
                                      + ('seen again when this file was written' if d else
                                         'not seen again when this file was written')))
            json.dump(rp, f, indent=1)
            f.write('\n')
        print(f'violation: C17.transcripts_equal plan={p["xid"]} world={p["world"]} seeds={pair}'
              + (' (address-dependent)' if addr else '')
              + (f': line {d["line"]}\n  {d["a"][:300]}\n  {d["b"][:300]}' if d else ''))
        print(f'VIOLATION property=C17 replay={path}')
        exit_code = 1
    rep.scheds = distinct
    rep.nontrivial_runs = len(distinct)
    rep.faults = {'hashseed_switch': len(plans) * (len(seeds) - 1),
                  'aslr_off_execution': len(plans) if has_setarch else 0,
                  'same_seed_repeat_with_heap_perturbation': len(plans),
                  'heap_layout_perturbation': len(plans) * sum(1 for j in jobs if j[2])}
    rep.extra = {'plans': len(plans), 'executions': len(plans) * len(table), 'hashseeds': seeds,
                 'setarch_available': has_setarch,
                 'interpreter_processes': sum(len(pr) for pr in procs),
                 'oracle_evaluations_rule': 'transcript comparisons against the baseline execution',
                 'rule': ('one evaluation = one plan (a seeded history from world D, L or peer-less S with the query '
                          'battery as query set) executed in fresh interpreters under every listed PYTHONHASHSEED, '
                          'once more under the first seed (determinism precondition) and once with ASLR off when '
                          'setarch -R is permitted; all transcripts must be byte-identical; a plan is non-trivial '
                          'when it has >= 3 events; distinct = distinct baseline transcript digests among them')}
    rep.drop = ('distinct_abstract_states', 'distinct_abstract_states_rule', 'nontrivial_runs', 'runs')
    for (p_, oracle), what in sorted(rep.known_hits.items()):
        print(f'KNOWN-FINDING: property={p_} {oracle}: {what}')
    driver.write_evidence(rep, spec, n_viol)
    print(f'{prop} {tier} seed={seed}: plans={len(plans)} executions={len(plans) * len(table)} hashseeds={seeds} '
          f'setarch={has_setarch} distinct_transcripts={len(distinct)} wall={time.time() - rep.t0:.1f}s exit={exit_code}')
    return exit_code
