"""Core plumbing of the deterministic simulator.

* one integer decides everything: every plan is generated from
  ``random.Random('<VERIF_SEED>:<world>:<run index>')`` (string seeding is
  sha512 based, hence independent of PYTHONHASHSEED);
* execution of a plan is a pure function of (plan, code under test): the
  executors never draw random numbers, never read a clock and never iterate an
  unordered container whose order could matter;
* every run executes in a freshly forked child of a process that has only
  imported the library (``isolated_call``), supervised with a wall-clock
  timeout that is *never* turned into a pass (``HarnessError``).
"""

import concurrent.futures
import faulthandler
import hashlib
import json
import multiprocessing
import os
import random
import re
import select
import signal
import sys
import time
import traceback

VERIF_DIR = os.path.dirname(os.path.dirname(os.path.abspath(__file__)))
REPO = os.environ.get('VERIF_REPO', '/repo')
PYTHON = '/venv/bin/python'
HARNESS_HASHSEED = '0'
GUARD = 'XFLR6_CONCEPTS_VERIF'


class HarnessError(Exception):
    """Anything that is the machinery's fault (never reported as VIOLATION)."""


def ensure_env():
    """Re-exec once so that the harness itself runs hash-stable, with the
    library imported from the tree under test (VERIF_REPO, default /repo)."""
    want = {'PYTHONHASHSEED': HARNESS_HASHSEED,
            'PYTHONDONTWRITEBYTECODE': '1',
            GUARD: '1'}
    if any(os.environ.get(k) != v for k, v in want.items()):
        env = dict(os.environ)
        env.update(want)
        os.execve(sys.executable, [sys.executable] + sys.argv, env)
    use_repo()


def use_repo():
    import warnings
    warnings.filterwarnings('ignore')   # e.g. graphviz DotSyntaxWarning for odd labels
    if REPO not in sys.path[:1]:
        sys.path.insert(0, REPO)
    import concepts
    got = os.path.dirname(os.path.dirname(os.path.abspath(concepts.__file__)))
    if os.path.realpath(got) != os.path.realpath(REPO):
        raise HarnessError(f'library imported from {got}, expected {REPO}')


def rng_for(seed, world, run):
    return random.Random(f'{seed}:{world}:{run}')


_ADDR = re.compile(r'0x[0-9a-fA-F]+')


def mask(text):
    return _ADDR.sub('0x?', text)


def canon(x):
    """Address-free, hash-order-free canonical text of a result."""
    if isinstance(x, str):
        return repr(x)
    if isinstance(x, bool) or x is None:
        return repr(x)
    if isinstance(x, int):
        return str(int(x))
    if isinstance(x, float):
        return repr(x)
    if isinstance(x, (list, tuple)):
        o, c = ('[', ']') if isinstance(x, list) else ('(', ')')
        return o + ','.join(canon(i) for i in x) + c
    if isinstance(x, dict):
        return '{' + ','.join(f'{canon(k)}:{canon(v)}' for k, v in x.items()) + '}'
    if isinstance(x, (set, frozenset)):
        return 'S{' + ','.join(sorted(canon(i) for i in x)) + '}'
    if isinstance(x, Outcome):
        return x.text()
    return mask(repr(x))


class Outcome:
    """Result of one library call: a value or a raised exception."""

    __slots__ = ('ok', 'value', 'exc')

    def __init__(self, ok, value=None, exc=None):
        self.ok, self.value, self.exc = ok, value, exc

    def text(self, with_message=True):
        if self.ok:
            return canon(self.value)
        if with_message:
            return f'!{type(self.exc).__name__}: {mask(str(self.exc))}'
        return f'!{type(self.exc).__name__}'


def call(fn, *args, **kwargs):
    """Call into the library; library exceptions become outcomes."""
    try:
        return Outcome(True, fn(*args, **kwargs))
    except RecursionError as e:
        return Outcome(False, exc=e)
    except Exception as e:  # noqa: BLE001 - the library may raise anything
        return Outcome(False, exc=e)


def scramble(x):
    """The caller owns what a call returned and may edit it in place: wreck every
    mutable container in a returned value (a correct library never notices)."""
    if isinstance(x, dict):
        for v in list(x.values()):
            scramble(v)
        x.clear()
    elif isinstance(x, list):
        for v in x:
            scramble(v)
        x.reverse()
        del x[len(x) // 2:]
    elif isinstance(x, tuple):
        for v in x:
            scramble(v)
    return None


class Violation(Exception):

    def __init__(self, prop, oracle, detail):
        super().__init__(f'{oracle}: {detail}')
        self.prop, self.oracle, self.detail = prop, oracle, detail


INTERPRETATION_ERRORS = (KeyError, IndexError, AttributeError, TypeError, ValueError, SyntaxError)


def uninterpretable(rec, exc):
    """The executor could not make sense of a value the library returned (e.g. a
    label that is not in the context, an object without the documented
    attribute).  That is a wrong result, not a fault of the machinery: report it
    as a violation of the property under check, with the traceback as detail.
    Anything else (HarnessError, AssertionError, OSError...) stays a HARNESS-ERROR."""
    prop = sorted(rec.props)[0] if rec.props else 'C00'
    rec.evals += 1
    tb = traceback.format_exc()
    return Violation(prop, f'{prop}.result_not_interpretable', f'{type(exc).__name__}: {exc}\n{tb[-900:]}')


class Recorder:
    """Per-run bookkeeping shared by all world executors."""

    def __init__(self, plan, props, known=None):
        self.plan = plan
        self.props = set(props)
        self.lines = []
        self.evals = 0
        self.faults = {}
        self.probes = {}
        self.sched = hashlib.sha256()
        self.states = set()
        self.event_index = -1
        self.event_kind = None
        self.pre_fault_state = False   # an oracle ran on state older than a fault
        self.fault_seen = False
        self.known = known or []
        self.known_hits = []
        self.scrub = []                # run-private strings (temp dirs) kept out of transcripts
        self.side = []                 # [event index, kind, text]: outcomes compared separately (World X)

    def want(self, prop):
        return prop in self.props

    def begin(self, index, event):
        self.event_index, self.event_kind = index, event[0]

    def log(self, text):
        for s in self.scrub:
            text = text.replace(s, '<DIR>')
        self.lines.append(f'{self.event_index} {self.event_kind} -> {text}')

    def log_side(self, text, detail=''):
        """An outcome that is compared across executions on its own, not as part of the transcript digest
        (World X matches differences here against the listed known findings one by one)."""
        self.side.append([self.event_index, self.event_kind, text, detail])

    AMBIENT = ('caller_mutates_result', 'caller_reuses_argument')

    def fault(self, kind, n=1):
        """Count a disturbance that actually fired.  The two caller-side disturbances fire on nearly every
        query, so they are counted but do not by themselves make a run non-trivial."""
        if n <= 0:
            return
        self.faults[kind] = self.faults.get(kind, 0) + n
        if kind not in self.AMBIENT:
            self.fault_seen = True

    def probe(self, name, n=1):
        self.probes[name] = self.probes.get(name, 0) + n

    def sched_step(self, *parts):
        self.sched.update(('|'.join(map(str, parts)) + '\n').encode())

    def state(self, text):
        if len(self.states) < 48:   # bounded per run: thorough batches stay within memory
            self.states.add(int.from_bytes(hashlib.sha256(text.encode()).digest()[:8], 'big'))

    def check(self, oracle, cond, detail=''):
        """Evaluate one oracle clause; ``detail`` may be a callable."""
        prop = oracle.split('.', 1)[0]
        if prop not in self.props:
            return
        self.evals += 1
        if self.fault_seen:
            self.pre_fault_state = True
        if not cond:
            if callable(detail):
                detail = detail()
            raise Violation(prop, oracle, str(detail)[:1500])

    def known_finding(self, prop, oracle, what):
        """Record a listed, unrepaired defect instead of raising (narrow)."""
        self.known_hits.append([prop, oracle, what])

    def result(self, violation=None):
        digest = hashlib.sha256('\n'.join(self.lines).encode()).hexdigest()
        res = {'viol': None, 'digest': digest, 'n_events': len(self.plan['events']),
               'evals': self.evals, 'faults': self.faults, 'probes': self.probes,
               'sched': self.sched.hexdigest()[:16], 'states': sorted(self.states),
               'nontrivial': bool(self.fault_seen and self.pre_fault_state),
               'known': self.known_hits, 'run': self.plan.get('run'), 'side': self.side}
        if violation is not None:
            res['viol'] = {'property': violation.prop, 'oracle': violation.oracle,
                           'event': self.event_index, 'kind': self.event_kind,
                           'detail': violation.detail,
                           'sig': [violation.oracle, self.event_kind]}
            res['tail'] = self.lines[-12:]
        if self.plan.get('keep_lines'):
            res['lines'] = self.lines
        return res


# ---------------------------------------------------------------- isolation

def _read_all(fd, deadline):
    chunks = []
    while True:
        left = deadline - time.monotonic()
        if left <= 0:
            return None
        r, _, _ = select.select([fd], [], [], min(left, 1.0))
        if r:
            data = os.read(fd, 1 << 16)
            if not data:
                return b''.join(chunks)
            chunks.append(data)


def isolated_call(fn, arg, timeout=120):
    """Run ``fn(arg)`` (JSON-able in/out) in a forked child; supervise it."""
    r, w = os.pipe()
    sys.stdout.flush()
    sys.stderr.flush()
    pid = os.fork()
    if pid == 0:
        code = 0
        try:
            os.close(r)
            faulthandler.dump_traceback_later(timeout + 5, exit=True)
            try:
                res = fn(arg)
            except Exception:  # noqa: BLE001
                res = {'harness_error': traceback.format_exc()}
            data = json.dumps(res).encode()
            with os.fdopen(w, 'wb') as f:
                f.write(data)
        except BaseException:  # noqa: BLE001
            traceback.print_exc()
            code = 3
        finally:
            os._exit(code)
    os.close(w)
    try:
        data = _read_all(r, time.monotonic() + timeout)
    finally:
        os.close(r)
    if data is None:
        os.kill(pid, signal.SIGKILL)
        os.waitpid(pid, 0)
        raise HarnessError(f'run timed out after {timeout}s: {str(arg)[:300]}')
    _, status = os.waitpid(pid, 0)
    if status != 0 or not data:
        raise HarnessError(f'run child died (status {status}): {str(arg)[:300]}')
    res = json.loads(data)
    if isinstance(res, dict) and 'harness_error' in res:
        raise HarnessError(res['harness_error'])
    return res


def _chunk_worker(payload):
    fn_name, module, args, timeout = payload
    mod = sys.modules.get(module) or __import__(module, fromlist=['x'])
    fn = getattr(mod, fn_name)
    out = []
    for a in args:
        try:
            out.append(isolated_call(fn, a, timeout))
        except HarnessError as e:
            out.append({'harness_error': str(e)})
    return out


def parallel_map(module, fn_name, args, workers=None, timeout=120, chunk=None, keep_errors=False):
    """Map ``module.fn_name`` over ``args``, each call in its own forked child.

    Results come back in argument order, so they do not depend on the number
    of workers."""
    args = list(args)
    if not args:
        return []
    workers = workers or int(os.environ.get('VERIF_WORKERS', '0')) or min(16, os.cpu_count() or 1)
    if workers <= 1:
        return _chunk_worker((fn_name, module, args, timeout))
    if chunk is None:
        chunk = max(1, min(50, len(args) // (workers * 4) or 1))
    chunks = [args[i:i + chunk] for i in range(0, len(args), chunk)]
    ctx = multiprocessing.get_context('fork')
    results = []
    with concurrent.futures.ProcessPoolExecutor(max_workers=workers, mp_context=ctx) as ex:
        futs = [ex.submit(_chunk_worker, (fn_name, module, c, timeout)) for c in chunks]
        for c, f in zip(chunks, futs):
            try:
                results.extend(f.result(timeout=timeout * len(c) + 60))
            except concurrent.futures.TimeoutError:
                raise HarnessError('worker pool timed out')
            except concurrent.futures.process.BrokenProcessPool as e:
                raise HarnessError(f'worker died: {e}')
    if not keep_errors:
        for r in results:
            if isinstance(r, dict) and 'harness_error' in r:
                raise HarnessError(r['harness_error'])
    return results


def sha(text):
    return hashlib.sha256(text.encode()).hexdigest()
