"""Peer interpreter of World S: executes one JSON command per line."""

import json
import os
import sys


def main():
    here = os.path.dirname(os.path.dirname(os.path.abspath(__file__)))
    sys.path.insert(0, here)
    repo = os.environ.get('VERIF_REPO', '/repo')
    sys.path.insert(0, repo)
    from sim import core
    core.use_repo()
    from sim.node import Node
    node = Node()
    out = sys.stdout
    out.write(json.dumps({'ok': True, 'ready': True, 'hashseed': os.environ.get('PYTHONHASHSEED')}) + '\n')
    out.flush()
    for line in sys.stdin:
        line = line.strip()
        if not line:
            continue
        cmd = json.loads(line)
        if cmd.get('op') == 'exit':
            break
        try:
            reply = node.handle(cmd)
        except Exception as e:  # noqa: BLE001 - harness-level failure, reported as such
            import traceback
            reply = {'ok': False, 'harness_error': traceback.format_exc()[-1500:]}
        out.write(json.dumps(reply) + '\n')
        out.flush()


if __name__ == '__main__':
    main()
