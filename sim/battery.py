"""Query battery: a fixed, canonicalising traversal of every public observable
of a context and its lattice.  Two objects are *indistinguishable* iff their
battery transcripts are equal.  Used differentially only (object vs object,
process vs process); it encodes no expectation of its own.
"""

from .core import call, canon, mask


def _stride(n, limit):
    if n <= limit:
        return list(range(n))
    step = n / float(limit)
    idx = sorted({int(i * step) for i in range(limit)} | {0, n - 1})
    return idx


def context_lines(ctx, text_dumps=True):
    out = []
    add = out.append
    add('objects ' + canon(call(lambda: ctx.objects)))
    add('properties ' + canon(call(lambda: ctx.properties)))
    add('bools ' + canon(call(lambda: [tuple(int(b) for b in r) for r in ctx.bools])))
    add('shape ' + canon(call(lambda: tuple(ctx.shape))))
    add('fill_ratio ' + canon(call(lambda: str(ctx.fill_ratio))))
    add('crc32 ' + canon(call(ctx.crc32)))
    add('repr ' + canon(call(lambda: mask(repr(ctx)))))
    if text_dumps:
        for frmat in ('table', 'cxt', 'csv', 'wiki-table', 'fimi'):
            add(f'tostring[{frmat}] ' + canon(call(ctx.tostring, frmat)))
        add('str ' + canon(call(lambda: mask(str(ctx)))))
    add('definition ' + canon(call(lambda: mask(repr(ctx.definition())))))
    add('relations ' + canon(call(lambda: [(type(r).__name__, r.left, r.right) for r in ctx.relations()])))
    add('relations_str ' + canon(call(lambda: str(ctx.relations()))))
    if len(ctx.objects) * len(ctx.properties) <= 150:
        import concepts
        add('fcbo ' + canon(call(lambda: [(tuple(e.iter_set()), tuple(i.iter_set()))
                                          for e, i in concepts.algorithms.get_concepts(ctx)])))
        add('fcbo_dual ' + canon(call(lambda: [(tuple(e.iter_set()), tuple(i.iter_set()))
                                               for e, i in concepts.algorithms.fcbo_dual(ctx)])))
    add('relations_unary ' + canon(call(lambda: [mask(str(r)) for r in ctx.relations(include_unary=True)])))
    return out


def lattice_lines(lat, objects=None, properties=None, limit=60, heavy=True):
    """Every public query on a lattice; subsampled by a fixed stride when large."""
    out = []
    add = out.append
    ms = call(list, lat)
    if not ms.ok:
        return ['list ' + ms.text()]
    ms = ms.value
    n = len(ms)
    add('len ' + canon(call(len, lat)))
    add('repr ' + canon(call(lambda: mask(repr(lat)))))
    pos = {id(c): k for k, c in enumerate(ms)}

    def ref(c):
        return pos.get(id(c), f'?{getattr(c, "extent", None)}')

    for k, c in enumerate(ms):
        add(f'c{k} ' + canon(call(lambda c=c: (type(c).__name__, c.index, c.dindex, c.extent, c.intent,
                                                tuple(c.objects), tuple(c.properties),
                                                [ref(u) for u in c.upper_neighbors],
                                                [ref(l) for l in c.lower_neighbors],
                                                [ref(a) for a in c.atoms],
                                                c.lattice is lat,
                                                # differential use only: a reloaded lattice must hand out the same
                                                # kinds of containers as a recomputed one
                                                [type(getattr(c, a)).__name__ for a in
                                                 ('upper_neighbors', 'lower_neighbors', 'atoms', 'objects',
                                                  'properties', 'extent', 'intent')]))))
    add('infimum ' + canon(call(lambda: ref(lat.infimum))))
    add('supremum ' + canon(call(lambda: ref(lat.supremum))))
    add('atoms ' + canon(call(lambda: [ref(a) for a in lat.atoms])))
    add('top ' + canon(call(lambda: ref(lat[()]))))
    sample = _stride(n, limit)
    for k in sample:
        c = ms[k]
        add(f'getitem{k} ' + canon(call(lambda: ref(lat[k]))))
        if c.extent:
            add(f'byext{k} ' + canon(call(lambda: ref(lat[c.extent]))))
            add(f'byext1_{k} ' + canon(call(lambda: ref(lat[c.extent[:1]]))))
        add(f'call{k} ' + canon(call(lambda: ref(lat(c.intent)))))
        if c.intent:
            add(f'byint{k} ' + canon(call(lambda: ref(lat[c.intent[-1:]]))))
        add(f'str{k} ' + canon(call(str, c)))
        add(f'pair{k} ' + canon(call(tuple, c)))
    if heavy:
        few = _stride(n, min(limit, 24))
        for k in few:
            c = ms[k]
            add(f'upset{k} ' + canon(call(lambda: [ref(x) for x in c.upset()])))
            add(f'downset{k} ' + canon(call(lambda: [ref(x) for x in c.downset()])))
            if len(c.intent) <= 9:
                add(f'minimal{k} ' + canon(call(c.minimal)))
            if len(c.intent) <= 7:
                add(f'attributes{k} ' + canon(call(lambda: list(c.attributes()))))
        for a in few[::2]:
            for b in few[1::3]:
                x, y = ms[a], ms[b]
                add(f'ops{a},{b} ' + canon(call(lambda: (
                    ref(x | y), ref(x & y), ref(x.join(y)), ref(x.meet(y)),
                    x <= y, x < y, x >= y, x > y, x.implies(y), x.subsumes(y),
                    x.properly_implies(y), x.properly_subsumes(y),
                    bool(x.incompatible_with(y)), bool(x.complement_of(y)),
                    bool(x.subcontrary_with(y)), bool(x.orthogonal_to(y))))))
        trio = [ms[k] for k in few[:3]]
        add('join3 ' + canon(call(lambda: ref(lat.join(trio)))))
        add('meet3 ' + canon(call(lambda: ref(lat.meet(trio)))))
        add('join0 ' + canon(call(lambda: ref(lat.join([])))))
        add('meet0 ' + canon(call(lambda: ref(lat.meet([])))))
        add('upU ' + canon(call(lambda: [ref(x) for x in lat.upset_union(trio + trio[:1])])))
        add('downU ' + canon(call(lambda: [ref(x) for x in lat.downset_union(trio + trio[:1])])))
        add('upU0 ' + canon(call(lambda: [ref(x) for x in lat.upset_union([])])))
        add('upG ' + canon(call(lambda: [ref(x) for x in lat.upset_generalization(trio)])))
        if n <= 200:
            add('str ' + canon(call(lambda: mask(str(lat)))))
            add('graphviz ' + canon(call(lambda: mask(lat.graphviz().source))))
            add('graphviz_lbl ' + canon(call(lambda: mask(lat.graphviz(make_object_label=', '.join,
                                                                 make_property_label='|'.join).source))))
    return out


def full(ctx, limit=60, heavy=True, text_dumps=True):
    lines = context_lines(ctx, text_dumps)
    lat = call(lambda: ctx.lattice)
    if not lat.ok:
        return lines + ['lattice ' + lat.text()]
    lines += lattice_lines(lat.value, limit=limit, heavy=heavy)
    if text_dumps:
        lines.append('todict ' + canon(call(ctx.todict)))
        lines.append('literal ' + canon(call(ctx.tostring, 'python-literal')))
        lines.append('neighbors ' + canon(call(lambda: ctx.neighbors(list(ctx.objects[:1])))))
        lines.append('neighbors0 ' + canon(call(lambda: ctx.neighbors([]))))
        lines.append('getitem ' + canon(call(ctx.__getitem__, list(ctx.objects[-1:]))))
        lines.append('intension ' + canon(call(ctx.intension, list(ctx.objects[:2]))))
        lines.append('extension ' + canon(call(ctx.extension, list(ctx.properties[:2]))))
    return lines


def first_diff(a, b):
    for k, (x, y) in enumerate(zip(a, b)):
        if x != y:
            return k, x[:400], y[:400]
    if len(a) != len(b):
        return min(len(a), len(b)), f'<{len(a)} lines>', f'<{len(b)} lines>'
    return None
