"""Helpers around the stored (dict / JSON / literal) form of a context."""

import random


def permute_dict(d, k):
    """Permute every stored sequence of a serialized context (legal with raw=True).

    Pure function of ``(d, k)``: the lattice list order (with the neighbor
    indexes remapped), the order inside every extent/intent/upper/lower index
    tuple and inside every context row."""
    rng = random.Random(f'perm:{k}')

    def shuf(items):
        items = list(items)
        rng.shuffle(items)
        return tuple(items)

    out = dict(d)
    out['context'] = [shuf(r) for r in d['context']]
    if d.get('lattice'):
        lat = list(d['lattice'])
        order = list(range(len(lat)))
        rng.shuffle(order)
        newpos = {old: p for p, old in enumerate(order)}
        out['lattice'] = [(shuf(lat[old][0]), shuf(lat[old][1]),
                           shuf(newpos[u] for u in lat[old][2]),
                           shuf(newpos[l] for l in lat[old][3])) for old in order]
    return out
