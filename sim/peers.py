"""Peer interpreter processes: start, command, restart (only the disk survives)."""

import json
import os
import select
import subprocess
import time

from . import core


class Peer:

    def __init__(self, hashseed, env_extra=None, setarch=False):
        env = {k: v for k, v in os.environ.items() if not k.startswith('COV')}
        env['PYTHONHASHSEED'] = str(hashseed)
        env['PYTHONDONTWRITEBYTECODE'] = '1'
        env['VERIF_REPO'] = core.REPO
        env.update(env_extra or {})
        cmd = [core.PYTHON, '-u', os.path.join(core.VERIF_DIR, 'sim', 'peer.py')]
        if setarch:
            cmd = ['setarch', 'x86_64', '-R'] + cmd
        self.hashseed = hashseed
        self.proc = subprocess.Popen(cmd, stdin=subprocess.PIPE, stdout=subprocess.PIPE,
                                     stderr=subprocess.PIPE, env=env, cwd=core.VERIF_DIR)
        self.buf = b''
        hello = self._read(60)
        if not hello.get('ready'):
            raise core.HarnessError(f'peer did not start: {hello}')

    def _read(self, timeout):
        deadline = time.monotonic() + timeout
        fd = self.proc.stdout.fileno()
        while b'\n' not in self.buf:
            left = deadline - time.monotonic()
            if left <= 0:
                self.kill()
                raise core.HarnessError('peer timed out')
            r, _, _ = select.select([fd], [], [], min(left, 1.0))
            if r:
                data = os.read(fd, 1 << 16)
                if not data:
                    err = self.proc.stderr.read().decode(errors='replace')[-1500:]
                    raise core.HarnessError(f'peer died: {err}')
                self.buf += data
        line, self.buf = self.buf.split(b'\n', 1)
        return json.loads(line)

    def handle(self, cmd, timeout=300):
        self.proc.stdin.write((json.dumps(cmd) + '\n').encode())
        self.proc.stdin.flush()
        reply = self._read(timeout)
        if 'harness_error' in reply:
            raise core.HarnessError('peer: ' + reply['harness_error'])
        return reply

    def kill(self):
        try:
            self.proc.kill()
        except OSError:
            pass
        try:
            self.proc.wait(timeout=10)
        except subprocess.TimeoutExpired:
            pass
        for f in (self.proc.stdin, self.proc.stdout, self.proc.stderr):
            try:
                f.close()
            except OSError:
                pass
