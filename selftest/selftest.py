#!/venv/bin/python
"""Self-tests of the machinery (placeholder until determinism/model tests land)."""
import sys
sys.exit(0)
