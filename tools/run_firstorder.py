#!/venv/bin/python
"""Run the checks against the first-order mutants that survive the pinned suite (seeded_firstorder/).

in_scope mutants (the sub-agent found a property they break): the owning check must report a VIOLATION.
The others (judged equivalent or out of scope by the sub-agent): the checks related to the mutated module are
run; an alarm there is either a real property violation the agent overlooked or a false alarm - to be reviewed.
Results: seeded_firstorder/RESULTS.json.   usage: run_firstorder.py [in_scope|other|all] [id ...]
"""
import json, os, shutil, subprocess, sys, time
HERE = os.path.dirname(os.path.dirname(os.path.abspath(__file__)))
PY = '/venv/bin/python'
RELATED = [('definitions.py', ['C13', 'C14', 'C17']), ('tools.py', ['C13', 'C14', 'C09']),
           ('matrices.py', ['C01', 'C02', 'C05', 'C11']), ('lattices.py', ['C02', 'C05', 'C09', 'C10', 'C11']),
           ('lattice_members.py', ['C09', 'C10', 'C02']), ('algorithms/', ['C05', 'C09']),
           ('contexts.py', ['C01', 'C02', 'C05', 'C11', 'C14']), ('formats/', ['C12', 'C11']),
           ('_common.py', ['C12']), ('__init__.py', ['C12'])]


def sh(cmd, cwd=None, env=None, timeout=7200):
    p = subprocess.run(cmd, cwd=cwd, env=env, capture_output=True, timeout=timeout)
    return p.returncode, (p.stdout + p.stderr).decode(errors='replace')


def main():
    mode = sys.argv[1] if len(sys.argv) > 1 else 'all'
    only = set(sys.argv[2:])
    d = os.path.join(HERE, 'seeded_firstorder')
    index = json.load(open(os.path.join(d, 'INDEX.json')))['mutants']
    res_path = os.path.join(d, 'RESULTS.json')
    results = json.load(open(res_path)) if os.path.exists(res_path) else {}
    for m in index:
        if only and m['id'] not in only:
            continue
        if mode == 'in_scope' and m['agent_class'] != 'in_scope':
            continue
        if mode == 'other' and m['agent_class'] == 'in_scope':
            continue
        if m['agent_class'] == 'in_scope':
            checks = m['agent_props']
        else:
            checks = next((c for k, c in RELATED if k in m['file']), ['C11'])
        copy = f"/tmp/verif-fo-{m['id']}"
        shutil.rmtree(copy, ignore_errors=True)
        sh(['rsync', '-a', '--exclude', '.git', '--exclude', 'htmlcov', '--exclude', 'test-output', '/repo/', copy + '/'])
        try:
            sh(['git', 'init', '-q'], cwd=copy)
            code, out = sh(['git', 'apply', '--whitespace=nowarn', os.path.join(d, m['id'] + '.patch')], cwd=copy)
            if code:
                print(m['id'], 'patch does not apply')
                continue
            entry = dict(m, checks={})
            for chk in checks:
                env = dict(os.environ, VERIF_REPO=copy)
                env.pop('PYTHONPATH', None)
                t0 = time.time()
                code, out = sh([PY, os.path.join(HERE, 'checks', 'run.py'), chk, '--tier', 'quick'], cwd=HERE, env=env)
                first = [l for l in out.splitlines() if l.startswith('violation:')]
                if m['agent_class'] == 'in_scope':
                    status = 'CAUGHT' if code == 1 else ('MISSED' if code == 0 else f'ERROR({code})')
                else:
                    status = 'SILENT' if code == 0 else ('ALARM' if code == 1 else f'ERROR({code})')
                entry['checks'][chk] = {'status': status, 'wall_s': round(time.time() - t0, 1),
                                        'first': first[0][:260] if first else ('' if code in (0, 1) else out[-300:])}
                print(f"{m['id']} {m['file']}:{m['line']} [{m['kind']}] ({m['agent_class']}) check {chk}: {status} "
                      f"{entry['checks'][chk]['first'][:150]}", flush=True)
            results[m['id']] = entry
        finally:
            shutil.rmtree(copy, ignore_errors=True)
        json.dump(results, open(res_path, 'w'), indent=1, sort_keys=True)


if __name__ == '__main__':
    main()
