"""Batch driver: seeded search over plans, confirmation, minimisation, replay,
known findings and evidence."""

import importlib
import json
import os
import subprocess
import sys
import time

from . import core

WORLD_MODULES = {'D': 'sim.world_defs', 'L': 'sim.world_live', 'S': 'sim.world_storage'}

KNOWN_FILE = os.path.join(core.VERIF_DIR, 'known_findings.json')


def world_module(world):
    return importlib.import_module(WORLD_MODULES[world])


def load_known():
    try:
        with open(KNOWN_FILE, encoding='utf-8') as f:
            return json.load(f).get('findings', [])
    except FileNotFoundError:
        return []


def open_known(prop):
    return [k for k in load_known() if k.get('status') == 'open' and k.get('property') == prop]


# ------------------------------------------------------------ worker entries

def gen_and_run(arg):
    """Generate plan number ``run`` from the seed and execute it (in a child)."""
    mod = world_module(arg['world'])
    rng = core.rng_for(arg['seed'], arg['world'] + arg.get('stream', ''), arg['run'])
    plan = mod.generate(rng, arg['seed'], arg['run'], arg['tier'], **arg.get('gen', {}))
    plan['props'] = arg['props']
    res = mod.run_one({'plan': plan, 'props': arg['props'], 'known': arg.get('known', [])})
    if res['viol'] or arg.get('want_plan') or arg['run'] < 2:
        res['plan'] = plan
    return res


def run_plan(arg):
    mod = world_module(arg['plan']['world'])
    return mod.run_one(arg)


# ------------------------------------------------------------ minimisation

def _fails_like(plan, props, sig, known, timeout=120):
    try:
        res = core.isolated_call(run_plan, {'plan': plan, 'props': props, 'known': known}, timeout)
    except core.HarnessError:
        return None
    v = res.get('viol')
    if v and v['sig'] == sig:
        return res
    return None


def ddmin(plan, props, sig, known, budget_s=240):
    """Delta debugging over the event list, keeping the failure signature."""
    t0 = time.monotonic()
    events = list(plan['events'])
    best = None

    def test(evs):
        cand = dict(plan, events=evs)
        return _fails_like(cand, props, sig, known)

    # cut everything after the failing event first
    res = test(events)
    if res is None:
        return plan, None
    best = res
    events = events[:res['viol']['event'] + 1]
    n = 2
    while len(events) >= 2 and time.monotonic() - t0 < budget_s:
        size = max(1, len(events) // n)
        reduced = False
        for start in range(0, len(events), size):
            cand = events[:start] + events[start + size:]
            if not cand:
                continue
            r = test(cand)
            if r is not None:
                events, best, reduced = cand, r, True
                n = max(n - 1, 2)
                break
            if time.monotonic() - t0 > budget_s:
                break
        if not reduced:
            if size == 1:
                break
            n = min(len(events), n * 2)
    out = dict(plan, events=events)
    mod = world_module(plan['world'])
    simplify = getattr(mod, 'simplify', None)
    if simplify is not None:
        progress = True
        while progress and time.monotonic() - t0 < budget_s:
            progress = False
            for cand in simplify(out):
                r = _fails_like(cand, props, sig, known)
                if r is not None:
                    out, best, progress = cand, r, True
                    break
                if time.monotonic() - t0 > budget_s:
                    break
    return out, best


# ------------------------------------------------------------ fresh interpreter

def run_fresh(plan, props, known=(), hashseed=core.HARNESS_HASHSEED, timeout=300, setarch=False):
    """Execute one plan in a brand-new interpreter; returns its result dict."""
    payload = json.dumps({'plan': plan, 'props': list(props), 'known': list(known)})
    env = dict(os.environ)
    env['PYTHONHASHSEED'] = str(hashseed)
    env['PYTHONDONTWRITEBYTECODE'] = '1'
    env[core.GUARD] = '1'
    cmd = [core.PYTHON, os.path.join(core.VERIF_DIR, 'checks', 'run.py'), '--exec-plan', '-']
    if setarch:
        cmd = ['setarch', 'x86_64', '-R'] + cmd
    p = subprocess.run(cmd, input=payload.encode(), capture_output=True, env=env,
                       timeout=timeout, cwd=core.VERIF_DIR)
    if p.returncode != 0:
        raise core.HarnessError(f'fresh interpreter failed: {p.stderr.decode()[-2000:]}')
    line = [l for l in p.stdout.decode().splitlines() if l.startswith('RESULT ')]
    if not line:
        raise core.HarnessError(f'no RESULT line: {p.stdout.decode()[-500:]}')
    return json.loads(line[-1][7:])


# ------------------------------------------------------------ the check

class Report:

    def __init__(self, prop, tier, seed):
        self.prop, self.tier, self.seed = prop, tier, seed
        self.runs = self.events = self.evals = 0
        self.faults, self.probes = {}, {}
        self.scheds, self.states = set(), set()
        self.nontrivial_runs = 0
        self.samples = []
        self.violations = []
        self.known_hits = {}
        self.unconfirmed = []
        self.extra = {}
        self.t0 = time.time()

    def absorb(self, results):
        for r in results:
            self.runs += 1
            self.events += r['n_events']
            self.evals += r['evals']
            for k, v in r['faults'].items():
                self.faults[k] = self.faults.get(k, 0) + v
            for k, v in r['probes'].items():
                self.probes[k] = self.probes.get(k, 0) + v
            if r['nontrivial']:
                self.nontrivial_runs += 1
                self.scheds.add(r['sched'])
            self.states.update(r['states'])
            for k in r.get('known', []):
                self.known_hits[tuple(k[:2])] = k[2]
            if 'plan' in r and len(self.samples) < 2 and not r['viol']:
                p = r['plan']
                self.samples.append({'world': p['world'], 'run': p['run'], 'config': p['config'],
                                     'events': p['events'][:25],
                                     'events_total': len(p['events'])})


def write_evidence(rep, spec, exit_violations):
    wall = time.time() - rep.t0
    cov = {
        'evaluations': rep.runs,
        'distinct_nontrivial': len(rep.scheds),
        'rule': ('one evaluation = one simulated run (a seeded plan of events executed in a freshly forked '
                 'process image with every oracle of the property evaluated after every event); a run is '
                 'non-trivial when at least one fault/disturbance of the kinds listed in faults_fired - other '
                 'than the two caller-side ones (caller_mutates_result, caller_reuses_argument), which fire on '
                 'nearly every query - fired AND at least one oracle was evaluated after it; distinct = '
                 'distinct schedule signatures (sha256 over the sequence of (event kind, slot/handle state)) '
                 'among non-trivial runs'),
        'samples': rep.samples or [{'note': 'no sample kept'}],
        'runs': rep.runs,
        'events_executed': rep.events,
        'oracle_evaluations': rep.evals,
        'nontrivial_runs': rep.nontrivial_runs,
        'distinct_abstract_states': len(rep.states),
        'distinct_abstract_states_rule': 'sha256 of the canonical model state + open-handle positions after each event; at most the first 48 per run are kept',
        'faults_fired': dict(sorted(rep.faults.items())),
        'probes': dict(sorted(rep.probes.items())),
        'runs_per_hour': int(rep.runs / wall * 3600) if wall > 0 else 0,
        'seeds': [rep.seed],
        'simulated_time': 'none: the library reads no clock; logical steps (events) are reported instead',
        'components_real': spec.get('real', []),
        'components_stub': spec.get('stub', []),
        'known_findings_hit': [list(k) + [v] for k, v in sorted(rep.known_hits.items())],
        'unconfirmed_seam_candidates': rep.unconfirmed,
    }
    cov.update(rep.extra)
    for k in getattr(rep, 'drop', ()):
        cov.pop(k, None)
    ev = {'property_id': rep.prop, 'tier': rep.tier, 'seed': rep.seed, 'level': 'exploration',
          'coverage': cov,
          'assumptions': spec.get('assumptions', []),
          'wall_s': round(wall, 2), 'violations': exit_violations}
    evdir = os.path.join(core.VERIF_DIR, 'evidence')
    if os.environ.get('VERIF_EVIDENCE_DIR'):
        evdir = os.environ['VERIF_EVIDENCE_DIR']     # sweeps that must not touch the committed evidence
    elif os.path.realpath(core.REPO) != '/repo':
        # sensitivity runs against a scratch copy never overwrite the evidence of the real tree
        evdir = os.environ.get('VERIF_EVIDENCE_DIR') or os.path.join(core.REPO, '.verif-evidence')
    path = os.path.join(evdir, f'{rep.prop}.json')
    os.makedirs(os.path.dirname(path), exist_ok=True)
    tmp = path + '.tmp'
    with open(tmp, 'w', encoding='utf-8') as f:
        json.dump(ev, f, indent=1, sort_keys=True, default=str)
        f.write('\n')
    os.replace(tmp, path)
    return path


def handle_violation(rep, res, props, known, confirm_real_seeds=False, siblings=()):
    """Confirm in a fresh interpreter, minimise, write the replay file.

    Returns the replay path, or None when the candidate needed the set-order
    seam and no real hash seed reproduces it (then it is only recorded)."""
    plan = res['plan']
    sig = res['viol']['sig']
    fresh = run_fresh(plan, props, known)
    if not fresh.get('viol') or fresh['viol']['sig'] != sig or fresh['digest'] != res['digest']:
        # The failure depends on something outside the plan - in this code base that can only be object
        # addresses (id() of a collected object re-used, id-ordered sets).  Never seen on the unchanged tree
        # (selftest: same plan, many executions, identical transcripts).  Pin the addresses (ASLR off, same
        # fresh-interpreter image) and look for an execution mode in which the plan fails every time.
        return handle_address_dependent(rep, res, props, known, siblings)
    small, best = ddmin(plan, props, sig, known)
    if best is None:
        small, best = plan, res
    hashseed = core.HARNESS_HASHSEED
    if small['config'].get('simset'):
        # soundness rule: an order produced by the seam may not be realisable
        noseam = dict(small, config=dict(small['config'], simset=False))
        found = None
        for hs in range(32):
            r = run_fresh(noseam, props, known, hashseed=hs)
            if r.get('viol') and r['viol']['sig'] == sig:
                found, best = hs, r
                break
        if found is None:
            rep.unconfirmed.append({'sig': sig, 'run': plan['run'], 'detail': res['viol']['detail'][:300]})
            return None
        small, hashseed = noseam, str(found)
    again = run_fresh(small, props, known, hashseed=hashseed)
    if not again.get('viol') or again['viol']['sig'] != sig:
        raise core.HarnessError('minimised plan does not reproduce in a fresh interpreter')
    path = os.path.join(replays_dir(), f'{rep.prop}-{rep.seed}-{plan["run"]}.json')
    with open(path, 'w', encoding='utf-8') as f:
        json.dump({'property': rep.prop, 'oracle': again['viol']['oracle'], 'signature': sig,
                   'verif_seed': rep.seed, 'run': plan['run'], 'hashseed': hashseed,
                   'props': list(props), 'plan': small,
                   'original_events': len(plan['events']), 'minimised_events': len(small['events']),
                   'violation': again['viol'], 'transcript_tail': again.get('tail', [])},
                  f, indent=1)
        f.write('\n')
    return path


def handle_address_dependent(rep, res, props, known, siblings=()):
    from . import seams
    sig = res['viol']['sig']
    modes = ([{'setarch': True}] if seams.setarch_available() else []) + [{'setarch': False}]
    chosen, last = None, None
    # the failing run itself first, then other runs of the batch that failed with the same signature: a
    # fresh interpreter is a deterministic image of its own, some of them fail there every time
    candidates = [res] + sorted((r for r in siblings if r is not res and r.get('plan')),
                                key=lambda r: len(r['plan']['events']))[:400]
    t_search = time.monotonic()
    import concurrent.futures as cf

    def once(job):
        cand, mode = job
        try:
            r = run_fresh(cand['plan'], props, known, setarch=mode['setarch'])
        except core.HarnessError:
            return None
        return r if r.get('viol') and r['viol']['sig'] == cand['viol']['sig'] else None

    with cf.ThreadPoolExecutor(max_workers=12) as ex:
        for mode in modes:
            if time.monotonic() - t_search > 150:
                break
            first = list(ex.map(once, [(c, mode) for c in candidates]))
            for cand, r in zip(candidates, first):
                if r is None:
                    continue
                again = list(ex.map(once, [(cand, mode)] * 3))
                if all(again):
                    chosen, res, last = mode, cand, again[-1]
                    break
            if chosen:
                break
    plan, sig = res['plan'], res['viol']['sig']
    path = os.path.join(replays_dir(), f'{rep.prop}-{rep.seed}-{plan["run"]}.json')
    small = plan
    if chosen is not None:
        # minimise with fresh interpreters in the pinned mode (slower than forked children)
        t0 = time.monotonic()
        events = list(plan['events'])[:res['viol']['event'] + 1]
        r = run_fresh(dict(plan, events=events), props, known, setarch=chosen['setarch'])
        if not (r.get('viol') and r['viol']['sig'] == sig):
            events = list(plan['events'])
        i = 0
        while i < len(events) and time.monotonic() - t0 < 180:
            cand = events[:i] + events[i + 1:]
            r = run_fresh(dict(plan, events=cand), props, known, setarch=chosen['setarch']) if cand else {}
            if r.get('viol') and r['viol']['sig'] == sig:
                events, last = cand, r
            else:
                i += 1
        small = dict(plan, events=events)
    with open(path, 'w', encoding='utf-8') as f:
        json.dump({'property': rep.prop, 'oracle': res['viol']['oracle'], 'signature': sig,
                   'verif_seed': rep.seed, 'run': plan['run'], 'hashseed': core.HARNESS_HASHSEED,
                   'props': list(props), 'plan': small, 'setarch': bool(chosen and chosen['setarch']),
                   'address_dependent': True,
                   'reproduces': ('every time in a fresh interpreter' + (' under setarch -R' if chosen['setarch'] else ''))
                   if chosen else 'not reliably: the failure depends on object addresses of the failing process',
                   'original_events': len(plan['events']), 'minimised_events': len(small['events']),
                   'violation': (last or res)['viol'], 'transcript_tail': (last or res).get('tail', [])},
                  f, indent=1)
        f.write('\n')
    rep.extra.setdefault('address_dependent_violations', []).append({'run': plan['run'], 'sig': sig,
                                                                     'pinned_mode': chosen})
    return path


def replays_dir():
    """Replay files of runs against a scratch tree (VERIF_REPO) go next to that tree, not into /verif."""
    if os.path.realpath(core.REPO) != '/repo':
        d = os.path.join(core.REPO, '.verif-replays')
    else:
        d = os.path.join(core.VERIF_DIR, 'replays')
    os.makedirs(d, exist_ok=True)
    return d


def replay(path):
    with open(path, encoding='utf-8') as f:
        rp = json.load(f)
    if rp.get('kind') == 'xproc':
        from . import world_xproc
        return world_xproc.replay(rp, path)
    res = run_fresh(rp['plan'], rp['props'], open_known(rp['property']) if False else [],
                    hashseed=rp.get('hashseed', core.HARNESS_HASHSEED), setarch=bool(rp.get('setarch')))
    v = res.get('viol')
    if v and v['sig'] == rp['signature']:
        print(f"reproduced: {v['oracle']} at event {v['event']} ({v['kind']}): {v['detail'][:600]}")
        print(f"VIOLATION property={rp['property']} replay={path}")
        return 1
    print(f'not reproduced (got {v})')
    return 0


def explore(prop, tier, seed, spec):
    """Run the seeded batch for one property; returns the process exit code."""
    rep = Report(prop, tier, seed)
    known = open_known(prop)
    n_runs = spec['runs'][tier]
    env_runs = os.environ.get('VERIF_RUNS')
    if env_runs:
        n_runs = int(env_runs)
    props = spec.get('props', [prop])
    args = [{'world': spec['world'], 'seed': seed, 'run': i, 'tier': tier, 'props': props,
             'known': known, 'gen': spec.get('gen', {}), 'stream': spec.get('stream', '')}
            for i in range(n_runs)]
    results = core.parallel_map('sim.driver', 'gen_and_run', args,
                                timeout=spec.get('timeout', 180) * (3 if tier == 'thorough' else 1),
                                keep_errors=True)
    # a run that died or was killed by its time limit is the machinery's problem (exit 2) - unless other runs
    # of the batch establish a violation: then the violation is what gets reported, and the dead runs are noted
    errors = [r['harness_error'] for r in results if 'harness_error' in r]
    results = [r for r in results if 'harness_error' not in r]
    if errors and not any(r['viol'] for r in results):
        raise core.HarnessError(errors[0])
    rep.absorb(results)
    exit_code = 0
    seen_sigs = set()
    n_viol = 0
    for r in results:
        if not r['viol']:
            continue
        sig = tuple(r['viol']['sig'])
        if sig in seen_sigs:
            continue
        seen_sigs.add(sig)
        if len(seen_sigs) > 3:
            break
        path = handle_violation(rep, r, props, known,
                                siblings=[x for x in results if x.get('viol') and x['viol']['oracle'] == r['viol']['oracle']])
        if path is None:
            continue
        n_viol += 1
        v = r['viol']
        print(f"violation: {v['oracle']} run={r['plan']['run']} event={v['event']} ({v['kind']}): "
              f"{v['detail'][:500]}")
        print(f'VIOLATION property={prop} replay={path}')
        exit_code = 1
    if errors:
        if exit_code != 1:
            raise core.HarnessError(errors[0])
        print(f'note: {len(errors)} further run(s) did not finish (time limit or dead worker); first: {errors[0][:300]}')
    extra = spec.get('extra')
    if extra is not None:
        code = extra(rep, tier, seed, known)
        exit_code = max(exit_code, code)
        if code == 1:
            n_viol += 1
    for (p, oracle), what in sorted(rep.known_hits.items()):
        print(f'KNOWN-FINDING: property={p} {oracle}: {what}')
    write_evidence(rep, spec, n_viol)
    print(f'{prop} {tier} seed={seed}: runs={rep.runs} events={rep.events} oracle_evals={rep.evals} '
          f'nontrivial={rep.nontrivial_runs} distinct_schedules={len(rep.scheds)} '
          f'states={len(rep.states)} faults={sum(rep.faults.values())} '
          f'wall={time.time() - rep.t0:.1f}s exit={exit_code}')
    return exit_code


def exec_plan_stdin():
    core.use_repo()
    payload = json.loads(sys.stdin.read())
    res = run_plan(payload)
    print('RESULT ' + json.dumps(res))
    return 0
