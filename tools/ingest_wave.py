#!/venv/bin/python
"""Ingest every change a wave's sub-agent left in DIR (x.diff, x_demo.py, x.md) as seeded/<PROP>-<tag><x>.

    tools/ingest_wave.py DIR TAG DEFAULT_PROP

The property is taken from a line `property: Cnn` in x.md when present.
"""
import glob, os, re, subprocess, sys
HERE = os.path.dirname(os.path.abspath(__file__))
src, tag, default = sys.argv[1:4]
kept = []
for diff in sorted(glob.glob(os.path.join(src, '*.diff'))):
    name = os.path.basename(diff)[:-5]
    md = os.path.join(src, name + '.md')
    if not os.path.exists(md):
        open(md, 'w').write(f'property: {default}\n(no notes written by the sub-agent)\n')
    if not os.path.exists(os.path.join(src, name + '_demo.py')):
        print(name, 'no demo, skipped'); continue
    m = re.search(r'property:\s*\**\s*(C\d\d)', open(md).read())
    prop = m.group(1) if m else default
    mid = f'{prop}-{tag}{name}'
    p = subprocess.run(['/venv/bin/python', os.path.join(HERE, 'ingest_seeded.py'), '--src', src, name, prop, mid],
                       capture_output=True, text=True)
    out = [l for l in (p.stdout + p.stderr).splitlines() if 'WARNING' not in l]
    print('\n'.join(out[-4:]))
    if p.returncode == 0:
        kept.append(mid)
print('KEPT', ' '.join(kept))
